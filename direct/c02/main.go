// C02: every connection is bound to the SKI of the presented certificate, and that SKI to the key.
// Complete enumeration of a finite configuration product against the real hub over real TLS on loopback.
package main

import (
	"crypto/ecdsa"
	"crypto/elliptic"
	"crypto/rand"
	"crypto/rsa"
	"crypto/sha1"
	"crypto/tls"
	"crypto/x509"
	"crypto/x509/pkix"
	"encoding/asn1"
	"encoding/hex"
	"encoding/json"
	"flag"
	"fmt"
	"io"
	"log"
	"math/big"
	"net"
	"net/http"
	"os"
	"sort"
	"strings"
	"sync"
	"time"

	"github.com/enbility/ship-go/api"
	"github.com/enbility/ship-go/cert"
	"github.com/enbility/ship-go/hub"
	"github.com/gorilla/websocket"
)

// ---- stubs ----

type mdnsStub struct{}

func (mdnsStub) Start(api.MdnsReportInterface) error { return nil }
func (mdnsStub) Shutdown()                           {}
func (mdnsStub) AnnounceMdnsEntry() error            { return nil }
func (mdnsStub) UnannounceMdnsEntry()                {}
func (mdnsStub) SetAutoAccept(bool)                  {}
func (mdnsStub) QRCodeText() string                  { return "" }
func (mdnsStub) RequestMdnsEntries()                 {}

type app struct {
	mu   sync.Mutex
	skis []string
}

func (a *app) note(ski string) { a.mu.Lock(); a.skis = append(a.skis, ski); a.mu.Unlock() }
func (a *app) take() []string {
	a.mu.Lock()
	defer a.mu.Unlock()
	s := a.skis
	a.skis = nil
	return s
}
func (a *app) RemoteSKIConnected(ski string)    { a.note(ski) }
func (a *app) RemoteSKIDisconnected(ski string) { a.note(ski) }
func (a *app) SetupRemoteDevice(ski string, w api.ShipConnectionDataWriterInterface) api.ShipConnectionDataReaderInterface {
	a.note(ski)
	return nil
}
func (a *app) VisibleRemoteServicesUpdated([]api.RemoteService)                    {}
func (a *app) ServiceShipIDUpdate(ski string, id string)                           { a.note(ski) }
func (a *app) ServicePairingDetailUpdate(ski string, d *api.ConnectionStateDetail) { a.note(ski) }
func (a *app) AllowWaitingForTrust(ski string) bool                                { return true }

// ---- certificates ----

type certVariant struct {
	name   string
	cert   *tls.Certificate
	leaf   *x509.Certificate
	okSKI  bool // 20 bytes and SHA-1 of the certificate's own public key
	skiHex string
	keySKI string // hex SHA-1 of the subject public key
}

func spkiHash(c *x509.Certificate) []byte {
	var spki struct {
		Algorithm pkix.AlgorithmIdentifier
		PublicKey asn1.BitString
	}
	if _, err := asn1.Unmarshal(c.RawSubjectPublicKeyInfo, &spki); err != nil {
		return nil
	}
	h := sha1.Sum(spki.PublicKey.RightAlign())
	return h[:]
}

func makeCert(name string, key any, pub any, ski []byte, cn string) certVariant {
	serial, _ := rand.Int(rand.Reader, big.NewInt(1<<62))
	tpl := x509.Certificate{SerialNumber: serial, Subject: pkix.Name{CommonName: cn, Organization: []string{"verif"}},
		NotBefore: time.Now().Add(-time.Hour), NotAfter: time.Now().Add(24 * time.Hour), KeyUsage: x509.KeyUsageDigitalSignature,
		ExtKeyUsage: []x509.ExtKeyUsage{x509.ExtKeyUsageClientAuth, x509.ExtKeyUsageServerAuth}, SubjectKeyId: ski}
	der, err := x509.CreateCertificate(rand.Reader, &tpl, &tpl, pub, key)
	if err != nil {
		panic(err)
	}
	leaf, _ := x509.ParseCertificate(der)
	v := certVariant{name: name, cert: &tls.Certificate{Certificate: [][]byte{der}, PrivateKey: key}, leaf: leaf}
	v.finish()
	return v
}

func (v *certVariant) finish() {
	v.skiHex = hex.EncodeToString(v.leaf.SubjectKeyId)
	ks := spkiHash(v.leaf)
	v.keySKI = hex.EncodeToString(ks)
	v.okSKI = len(v.leaf.SubjectKeyId) == 20 && v.skiHex == v.keySKI
}

var victimCert [][]byte

func variants(victimSKI []byte) []certVariant {
	var out []certVariant
	ec := func() *ecdsa.PrivateKey { k, _ := ecdsa.GenerateKey(elliptic.P256(), rand.Reader); return k }
	// generator output
	gen, err := cert.CreateCertificate("unit", "org", "DE", "generated")
	if err != nil {
		panic(err)
	}
	gl, _ := x509.ParseCertificate(gen.Certificate[0])
	gv := certVariant{name: "generator", cert: &gen, leaf: gl}
	gv.finish()
	out = append(out, gv)
	k := ec()
	out = append(out, makeCert("ski-absent", k, &k.PublicKey, nil, "absent"))
	for _, n := range []int{1, 19, 21, 40} {
		k := ec()
		b := make([]byte, n)
		rand.Read(b)
		out = append(out, makeCert(fmt.Sprintf("ski-len-%d", n), k, &k.PublicKey, b, "len"))
	}
	k = ec()
	tmp := makeCert("tmp", k, &k.PublicKey, []byte{1}, "x")
	out = append(out, makeCert("ski-correct", k, &k.PublicKey, spkiHash(tmp.leaf), "correct"))
	k = ec()
	out = append(out, makeCert("ski-stolen", k, &k.PublicKey, victimSKI, "thief"))
	k = ec()
	rnd := make([]byte, 20)
	rand.Read(rnd)
	out = append(out, makeCert("ski-random-20", k, &k.PublicKey, rnd, "random"))
	// certificate chains: the TLS handshake proves possession of the key of the FIRST certificate only;
	// appending another device's (public) certificate must never lend its identity
	for _, base := range []string{"ski-absent", "ski-len-19", "ski-random-20", "ski-correct"} {
		for _, v := range out {
			if v.name == base && victimCert != nil {
				c := *v.cert
				c.Certificate = append([][]byte{v.cert.Certificate[0]}, victimCert...)
				cv := certVariant{name: "chain:" + base + "+victim", cert: &c, leaf: v.leaf}
				cv.finish()
				out = append(out, cv)
			}
		}
	}
	rk, _ := rsa.GenerateKey(rand.Reader, 2048)
	tmp = makeCert("tmp", rk, &rk.PublicKey, []byte{1}, "x")
	out = append(out, makeCert("rsa-correct", rk, &rk.PublicKey, spkiHash(tmp.leaf), "rsa"))
	return out
}

// ---- inbound ----

type result struct {
	Case     string   `json:"case"`
	Expected bool     `json:"expected_ship_traffic"`
	Got      bool     `json:"got_ship_traffic"`
	SKIs     []string `json:"skis_named"`
	Detail   string   `json:"detail"`
	WrongSKI string   `json:"wrong_ski,omitempty"`
}

func freePort() int {
	l, err := net.Listen("tcp", "127.0.0.1:0")
	if err != nil {
		panic(err)
	}
	p := l.Addr().(*net.TCPAddr).Port
	l.Close()
	return p
}

var tlsVersions = []uint16{tls.VersionTLS10, tls.VersionTLS11, tls.VersionTLS12, tls.VersionTLS13}

func verName(v uint16) string {
	return map[uint16]string{tls.VersionTLS10: "1.0", tls.VersionTLS11: "1.1", tls.VersionTLS12: "1.2", tls.VersionTLS13: "1.3"}[v]
}

func engineError(format string, a ...any) {
	fmt.Fprintf(os.Stderr, "ENGINE-ERROR: "+format+"\n", a...)
	os.Exit(2)
}

func inbound(vs []certVariant, a *app, port int) []result {
	var out []result
	legit := map[string]bool{}
	for _, v := range vs {
		if v.okSKI {
			legit[v.keySKI] = true
		}
	}
	subs := [][]string{nil, {"ship"}, {"x"}, {"x", "ship"}}
	clientVariants := append([]certVariant{{name: "no-certificate"}}, vs...)
	for _, v := range clientVariants {
		for _, ver := range tlsVersions {
			for _, sp := range subs {
				name := fmt.Sprintf("inbound cert=%s tls<=%s subprotocols=%v", v.name, verName(ver), sp)
				shipOffered := false
				for _, s := range sp {
					if s == "ship" {
						shipOffered = true
					}
				}
				expected := v.cert != nil && v.okSKI && ver >= tls.VersionTLS12 && shipOffered
				cfg := &tls.Config{InsecureSkipVerify: true, MinVersion: tls.VersionTLS10, MaxVersion: ver, CipherSuites: append([]uint16{tls.TLS_ECDHE_ECDSA_WITH_AES_128_CBC_SHA}, cert.CipherSuites...)}
				if v.cert != nil {
					cfg.Certificates = []tls.Certificate{*v.cert}
				}
				d := websocket.Dialer{TLSClientConfig: cfg, Subprotocols: sp, HandshakeTimeout: 60 * time.Second}
				a.take()
				conn, _, err := d.Dial(fmt.Sprintf("wss://127.0.0.1:%d/ship/", port), nil)
				got, detail := false, ""
				if err != nil {
					detail = "dial: " + err.Error()
				} else {
					_ = conn.WriteMessage(websocket.BinaryMessage, []byte{0, 0})
					conn.SetReadDeadline(time.Now().Add(90 * time.Second))
					for {
						_, msg, err := conn.ReadMessage()
						if err != nil {
							if ne, ok := err.(net.Error); ok && ne.Timeout() {
								engineError("%s: the hub neither answered nor closed the connection within 90 s", name)
							}
							detail += " end: " + err.Error()
							break
						}
						got = true
						detail += fmt.Sprintf(" frame %x", msg[:min(len(msg), 8)])
						// one SHIP frame is enough; close from our side
						break
					}
					conn.Close()
				}
				time.Sleep(20 * time.Millisecond)
				named := a.take()
				res := result{Case: name, Expected: expected, Got: got, SKIs: named, Detail: strings.TrimSpace(detail)}
				// callbacks are delayed (500 ms notifications), so they cannot be attributed to one case; but every
				// SKI the hub ever names must be the key hash of a peer that legitimately connected
				for _, s := range named {
					if !legit[s] {
						res.WrongSKI = s
					}
				}
				out = append(out, res)
				_ = v.keySKI
			}
		}
	}
	return out
}

// ---- outbound ----

type peerServer struct {
	port   int
	frames chan []byte
	closed chan struct{}
	srv    *http.Server
}

// rootOnly: the peer answers 404 on the announced path, so that the hub's second dial (without the path) is the
// one that succeeds
func startPeer(v certVariant, offerShip bool, rootOnly bool) *peerServer {
	p := &peerServer{port: freePort(), frames: make(chan []byte, 16), closed: make(chan struct{}, 16)}
	up := websocket.Upgrader{CheckOrigin: func(*http.Request) bool { return true }, Subprotocols: []string{"ship"}}
	p.srv = &http.Server{Addr: fmt.Sprintf("127.0.0.1:%d", p.port), TLSConfig: &tls.Config{Certificates: []tls.Certificate{*v.cert}, ClientAuth: tls.RequestClientCert},
		Handler: http.HandlerFunc(func(w http.ResponseWriter, r *http.Request) {
			if rootOnly && r.URL.Path != "/" && r.URL.Path != "" {
				http.NotFound(w, r)
				return
			}
			c, err := up.Upgrade(w, r, nil)
			if err != nil {
				return
			}
			defer c.Close()
			c.SetReadDeadline(time.Now().Add(90 * time.Second))
			for {
				_, msg, err := c.ReadMessage()
				if err != nil {
					p.closed <- struct{}{}
					return
				}
				p.frames <- msg
			}
		})}
	ln, err := tls.Listen("tcp", p.srv.Addr, p.srv.TLSConfig)
	if err != nil {
		panic(err)
	}
	go p.srv.Serve(ln)
	return p
}

func spellings(ski string) map[string]string {
	var parts []string
	for i := 0; i+2 <= len(ski); i += 2 {
		parts = append(parts, ski[i:i+2])
	}
	return map[string]string{"canonical": ski, "upper": strings.ToUpper(ski), "spaced": strings.Join(parts, " ")}
}

func outbound(vs []certVariant, h *hub.Hub, a *app, otherSKI string) []result {
	var out []result
	for _, vv := range vs {
		for _, rootOnly := range []bool{false, true} {
			v := vv
			if v.cert == nil {
				continue
			}
			p := startPeer(v, true, rootOnly)
			if rootOnly {
				v.name += "(served-on-retry-path-only)"
			}
			dials := map[string]string{}
			if len(v.skiHex) > 0 {
				for n, s := range spellings(v.skiHex) {
					dials["presented-ski/"+n] = s
				}
			}
			dials["other-ski"] = otherSKI
			dials["key-ski"] = v.keySKI
			var names []string
			for n := range dials {
				names = append(names, n)
			}
			sort.Strings(names)
			for _, n := range names {
				d := dials[n]
				name := fmt.Sprintf("outbound cert=%s dialled=%s", v.name, n)
				norm := strings.ToLower(strings.ReplaceAll(strings.ReplaceAll(d, " ", ""), "-", ""))
				expected := v.okSKI && norm == v.skiHex
				for len(p.frames) > 0 {
					<-p.frames
				}
				for len(p.closed) > 0 {
					<-p.closed
				}
				a.take()
				h.RegisterRemoteSKI(d)
				entry := &api.MdnsEntry{Name: "peer", Ski: norm, Identifier: "peer", Path: "/ship/", Host: "127.0.0.1", Port: p.port, Addresses: []net.IP{net.ParseIP("127.0.0.1")}}
				h.ReportMdnsEntries(map[string]*api.MdnsEntry{norm: entry}, true)
				got, detail := false, ""
				// a connection that has to come about is waited for generously (no verdict depends on the machine being
				// fast); for one that must not, 1.5 s without a frame is the observation
				wait := 1500 * time.Millisecond
				if expected {
					wait = 150 * time.Second
				}
				select {
				case f := <-p.frames:
					got = true
					detail = fmt.Sprintf("frame %x", f[:min(len(f), 8)])
				case <-p.closed:
					detail = "closed without a frame"
				case <-time.After(wait):
					detail = "no connection / no frame"
				}
				h.UnregisterRemoteSKI(d)
				h.DisconnectSKI(norm, "done")
				time.Sleep(650 * time.Millisecond)
				out = append(out, result{Case: name, Expected: expected, Got: got, SKIs: a.take(), Detail: detail})
			}
			p.srv.Close()
		}
	}
	return out
}

func main() {
	tier := flag.String("tier", "quick", "")
	seed := flag.Int64("seed", 0, "")
	evidence := flag.String("evidence", "", "")
	known := flag.String("known", "", "")
	replays := flag.String("replays", "/var/tmp", "")
	replay := flag.String("replay", "", "")
	flag.Parse()
	_ = replay
	start := time.Now()
	log.SetOutput(io.Discard) // the TLS handshake errors of refused peers are expected

	// the hub under test, with a generator-made certificate
	hc, err := cert.CreateCertificate("unit", "org", "DE", "hub-under-test")
	if err != nil {
		engineError("%v", err)
	}
	hl, _ := x509.ParseCertificate(hc.Certificate[0])
	hubSKI, _ := cert.SkiFromCertificate(hl)
	victim, _ := cert.CreateCertificate("unit", "org", "DE", "victim")
	vl, _ := x509.ParseCertificate(victim.Certificate[0])
	a := &app{}
	port := freePort()
	local := api.NewServiceDetails(hubSKI)
	local.SetShipID("hub-under-test")
	h := hub.NewHub(a, mdnsStub{}, port, hc, local)
	h.SetAutoAccept(true)
	h.Start()
	time.Sleep(200 * time.Millisecond)

	victimCert = victim.Certificate
	vs := variants(vl.SubjectKeyId)
	var results []result
	results = append(results, inbound(vs, a, port)...)
	results = append(results, outbound(vs, h, a, hex.EncodeToString(vl.SubjectKeyId))...)

	// generator half: subject strings
	subjects := []string{"", "x", "Ünï-cödé", strings.Repeat("long", 16), "a,b=c/d", "dev-0815"}
	if *tier == "thorough" {
		subjects = append(subjects, " ", "\"quoted\"", "日本語", strings.Repeat("z", 64), "CN=evil,O=x")
	}
	genFail := 0
	for _, s := range subjects {
		c, err := cert.CreateCertificate(s, s, "DE", s)
		name := fmt.Sprintf("generator subject=%q", s)
		if err != nil {
			// an un-encodable subject is refused by crypto/x509, that is a defined outcome
			results = append(results, result{Case: name, Expected: false, Got: false, Detail: "refused: " + err.Error()})
			continue
		}
		l, _ := x509.ParseCertificate(c.Certificate[0])
		ski, err := cert.SkiFromCertificate(l)
		ok := err == nil && len(ski) == 40 && ski == strings.ToLower(ski) && ski == hex.EncodeToString(spkiHash(l))
		if !ok {
			genFail++
		}
		results = append(results, result{Case: name, Expected: true, Got: ok, Detail: "ski=" + ski})
	}

	// generator half: key values. CreateCertificate draws its key from crypto/rand.Reader; a reader that hands
	// out a chosen scalar for the key (and a fixed stream for everything else) makes the key an enumerable input:
	// every scalar k in [1, kMax] whose public point has a coordinate with a leading zero byte (the encodings
	// that differ between fixed-width and minimal big-endian), plus the first 16 scalars.
	kMax := 1500
	if *tier == "thorough" {
		kMax = 6000
	}
	keyCases := 0
	for k := 1; k <= kMax; k++ {
		kb := make([]byte, 32)
		big.NewInt(int64(k)).FillBytes(kb)
		x, y := elliptic.P256().ScalarBaseMult(kb)
		lead := len(x.Bytes()) < 32 || len(y.Bytes()) < 32
		if !lead && k > 16 {
			continue
		}
		keyCases++
		saved := rand.Reader
		rand.Reader = &keyReader{scalar: kb}
		c, err := cert.CreateCertificate("unit", "org", "DE", "generated")
		rand.Reader = saved
		name := fmt.Sprintf("generator key=%d(leading-zero-coordinate=%v)", k, lead)
		if err != nil {
			results = append(results, result{Case: name, Expected: true, Got: false, Detail: "CreateCertificate failed: " + err.Error()})
			continue
		}
		l, _ := x509.ParseCertificate(c.Certificate[0])
		if pk, ok := l.PublicKey.(*ecdsa.PublicKey); !ok || pk.X.Cmp(x) != 0 {
			// the library did not use the injected scalar (another way of drawing keys): not a verdict, the case does not count
			keyCases--
			continue
		}
		ski, err := cert.SkiFromCertificate(l)
		ok := err == nil && ski == hex.EncodeToString(spkiHash(l))
		detail := "ski=" + ski
		if err != nil {
			detail = "refused: " + err.Error()
		}
		results = append(results, result{Case: name, Expected: true, Got: ok, Detail: detail})
	}
	_ = keyCases

	// ---- verdicts ----
	type kf struct{ Property, Key, What string }
	var kfile struct{ Findings []kf }
	if b, err := os.ReadFile(*known); err == nil {
		_ = json.Unmarshal(b, &kfile)
	}
	viol := map[string]result{}
	for _, r := range results {
		if r.Expected != r.Got {
			class := "refused-although-valid"
			if r.Got {
				class = "accepted-although-invalid"
			}
			parts := strings.Fields(r.Case)
			key := fmt.Sprintf("C02|%s|%s|%s", parts[0], class, strings.TrimPrefix(parts[1], "cert="))
			if _, ok := viol[key]; !ok {
				viol[key] = r
			}
		}
		// every SKI named in a callback must be the hash of the key the peer proved possession of
		if r.WrongSKI != "" {
			parts := strings.Fields(r.Case)
			key := fmt.Sprintf("C02|%s|foreign-ski-named|%s", parts[0], strings.TrimPrefix(parts[1], "cert="))
			if _, ok := viol[key]; !ok {
				viol[key] = r
			}
		}
	}
	var keys []string
	for k := range viol {
		keys = append(keys, k)
	}
	sort.Strings(keys)
	newV, knownSeen := 0, 0
	for _, k := range keys {
		isKnown := false
		for _, f := range kfile.Findings {
			if f.Property == "C02" && f.Key == k {
				isKnown = true
				knownSeen++
				fmt.Printf("KNOWN-FINDING: property=C02 %s [%s]\n", f.What, k)
			}
		}
		if isKnown {
			continue
		}
		newV++
		path := fmt.Sprintf("%s/C02-%x.json", *replays, sha1.Sum([]byte(k)))
		b, _ := json.MarshalIndent(map[string]any{"property": "C02", "key": k, "msg": viol[k], "replay": map[string]any{"case": viol[k].Case}}, "", " ")
		_ = os.WriteFile(path, b, 0o644)
		fmt.Printf("VIOLATION property=C02 replay=%s\n  key=%s: %s: SHIP traffic expected=%v observed=%v (%s) skis=%v\n", path, k, viol[k].Case, viol[k].Expected, viol[k].Got, viol[k].Detail, viol[k].SKIs)
	}
	nontriv := 0
	var samples []any
	for i, r := range results {
		if !r.Expected {
			nontriv++
		}
		if i%29 == 0 {
			samples = append(samples, r)
		}
	}
	ev := map[string]any{"property_id": "C02", "tier": *tier, "seed": *seed, "level": "exploration",
		"coverage": map[string]any{"evaluations": len(results), "distinct_nontrivial": nontriv,
			"rule":    "inbound: {no certificate, 10 certificate variants (generator output, SKI absent, length 1/19/21/40, correct, copied from another device, random 20 bytes, RSA key)} x TLS max version {1.0,1.1,1.2,1.3} x offered sub-protocols {none,[ship],[x],[x,ship]}; outbound: certificate variant x dialled SKI {presented (canonical, upper case, spaced), another device's, the hash of the key}; generator: subject strings; every case is one real TLS/websocket session against the real hub on loopback; non-trivial = cases that must be refused",
			"samples": samples, "exhaustive": true, "known_findings_seen": knownSeen},
		"assumptions": []string{"crypto/tls reports the authenticated leaf as PeerCertificates[0]", "real sockets and wall-clock time on loopback; generous watchdogs end in an engine error (exit 2), never in a verdict"},
		"wall_s":      time.Since(start).Seconds(), "violations": newV}
	if *evidence != "" {
		b, _ := json.MarshalIndent(ev, "", " ")
		_ = os.WriteFile(*evidence, b, 0o644)
	}
	fmt.Printf("C02 %s: cases=%d must-refuse=%d violations=%d known=%d wall=%.1fs\n", *tier, len(results), nontriv, newV, knownSeen, time.Since(start).Seconds())
	if newV > 0 {
		os.Exit(1)
	}
	os.Exit(0)
}

// keyReader stands in for crypto/rand.Reader while one certificate is generated: a single-byte read (the
// randutil.MaybeReadByte of ecdsa.GenerateKey, which happens or not) gets a zero, the first 32-byte read gets
// the chosen scalar, everything after that a fixed counter stream.
type keyReader struct {
	scalar []byte
	given  bool
	ctr    byte
}

func (r *keyReader) Read(p []byte) (int, error) {
	if !r.given && len(p) == 1 {
		p[0] = 0
		return 1, nil
	}
	if !r.given && len(p) == len(r.scalar) {
		copy(p, r.scalar)
		r.given = true
		return len(p), nil
	}
	for i := range p {
		r.ctr++
		p[i] = r.ctr | 1
	}
	return len(p), nil
}
