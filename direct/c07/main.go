// C07: EEBUS-JSON transform round trip — bounded-exhaustive enumeration of JSON documents
// against a reference transformer, on the un-instrumented functions of /repo.
package main

import (
	"bytes"
	"encoding/json"
	"flag"
	"fmt"
	"os"
	"runtime"
	"sort"
	"strings"
	"sync"
	"time"

	"github.com/enbility/ship-go/model"
	"github.com/enbility/ship-go/ship"
)

// ---- document trees ----

type node struct {
	kind byte // 'o' object, 'a' array, 's' scalar (raw JSON text)
	raw  string
	keys []string
	kids []*node
}

func (n *node) write(b *strings.Builder, ws bool) {
	sp := ""
	if ws {
		sp = " "
	}
	switch n.kind {
	case 's':
		b.WriteString(n.raw)
	case 'a':
		b.WriteString("[" + sp)
		for i, k := range n.kids {
			if i > 0 {
				b.WriteString("," + sp)
			}
			k.write(b, ws)
		}
		b.WriteString(sp + "]")
	case 'o':
		b.WriteString("{" + sp)
		for i, k := range n.kids {
			if i > 0 {
				b.WriteString("," + sp)
			}
			kb, _ := json.Marshal(n.keys[i])
			b.Write(kb)
			b.WriteString(":" + sp)
			k.write(b, ws)
		}
		b.WriteString(sp + "}")
	}
}

func (n *node) String() string { var b strings.Builder; n.write(&b, false); return b.String() }

// reference transformer: object -> array of single-member objects, recursively; nothing else changes
func toEEBUS(n *node) *node {
	switch n.kind {
	case 'o':
		out := &node{kind: 'a'}
		for i, k := range n.kids {
			out.kids = append(out.kids, &node{kind: 'o', keys: []string{n.keys[i]}, kids: []*node{toEEBUS(k)}})
		}
		return out
	case 'a':
		out := &node{kind: 'a'}
		for _, k := range n.kids {
			out.kids = append(out.kids, toEEBUS(k))
		}
		return out
	}
	return n
}

// parse with member order and number literals preserved
func parse(data []byte) (*node, error) {
	dec := json.NewDecoder(bytes.NewReader(data))
	dec.UseNumber()
	n, err := parseValue(dec)
	if err != nil {
		return nil, err
	}
	if _, err := dec.Token(); err == nil {
		return nil, fmt.Errorf("trailing data")
	}
	return n, nil
}

func parseValue(dec *json.Decoder) (*node, error) {
	t, err := dec.Token()
	if err != nil {
		return nil, err
	}
	switch v := t.(type) {
	case json.Delim:
		switch v {
		case '{':
			n := &node{kind: 'o'}
			for dec.More() {
				kt, err := dec.Token()
				if err != nil {
					return nil, err
				}
				k, ok := kt.(string)
				if !ok {
					return nil, fmt.Errorf("bad key")
				}
				c, err := parseValue(dec)
				if err != nil {
					return nil, err
				}
				n.keys = append(n.keys, k)
				n.kids = append(n.kids, c)
			}
			_, err := dec.Token()
			return n, err
		case '[':
			n := &node{kind: 'a'}
			for dec.More() {
				c, err := parseValue(dec)
				if err != nil {
					return nil, err
				}
				n.kids = append(n.kids, c)
			}
			_, err := dec.Token()
			return n, err
		}
		return nil, fmt.Errorf("unexpected delimiter %v", v)
	case json.Number:
		return &node{kind: 's', raw: string(v)}, nil
	case string:
		b, _ := json.Marshal(v)
		return &node{kind: 's', raw: "S:" + v + "|" + string(b[:0])}, nil
	case bool:
		return &node{kind: 's', raw: fmt.Sprint(v)}, nil
	case nil:
		return &node{kind: 's', raw: "null"}, nil
	}
	return nil, fmt.Errorf("unexpected token")
}

// canonical comparison form
func canon(n *node) string {
	var b strings.Builder
	var rec func(n *node)
	rec = func(n *node) {
		switch n.kind {
		case 's':
			b.WriteString("<" + n.raw + ">")
		case 'a':
			b.WriteString("[")
			for _, k := range n.kids {
				rec(k)
				b.WriteString(",")
			}
			b.WriteString("]")
		case 'o':
			b.WriteString("{")
			for i, k := range n.kids {
				b.WriteString(fmt.Sprintf("%q:", n.keys[i]))
				rec(k)
				b.WriteString(",")
			}
			b.WriteString("}")
		}
	}
	rec(n)
	return b.String()
}

// ---- enumeration ----

type gen struct {
	scalars []string
	keys    []string
	maxKids int
}

// all trees with exactly n nodes whose root has the given kind restriction (top: object only)
func (g *gen) trees(n int, top bool, emit func(*node)) {
	if n <= 0 {
		return
	}
	if !top && n == 1 {
		for _, s := range g.scalars {
			emit(&node{kind: 's', raw: s})
		}
	}
	// containers: 1 node for the container + children partition of n-1 into <=maxKids parts
	kinds := []byte{'o', 'a'}
	if top {
		kinds = []byte{'o'}
	}
	for _, kind := range kinds {
		for nk := 0; nk <= g.maxKids; nk++ {
			if nk == 0 {
				if n == 1 {
					emit(&node{kind: kind})
				}
				continue
			}
			g.children(n-1, nk, func(kids []*node) {
				if kind == 'a' {
					emit(&node{kind: 'a', kids: append([]*node(nil), kids...)})
					return
				}
				g.keyTuples(nk, func(keys []string) {
					emit(&node{kind: 'o', keys: append([]string(nil), keys...), kids: append([]*node(nil), kids...)})
				})
			})
		}
	}
}

func (g *gen) children(total, parts int, emit func([]*node)) {
	cur := make([]*node, 0, parts)
	var rec func(left, p int)
	rec = func(left, p int) {
		if p == 0 {
			if left == 0 {
				emit(cur)
			}
			return
		}
		for sz := 1; sz <= left-(p-1); sz++ {
			g.trees(sz, false, func(t *node) {
				cur = append(cur, t)
				rec(left-sz, p-1)
				cur = cur[:len(cur)-1]
			})
		}
	}
	rec(total, parts)
}

// distinct keys (duplicate member names have no defined semantics)
func (g *gen) keyTuples(n int, emit func([]string)) {
	cur := make([]string, 0, n)
	var rec func()
	rec = func() {
		if len(cur) == n {
			emit(cur)
			return
		}
		for _, k := range g.keys {
			dup := false
			for _, c := range cur {
				if c == k {
					dup = true
				}
			}
			if dup {
				continue
			}
			cur = append(cur, k)
			rec()
			cur = cur[:len(cur)-1]
		}
	}
	rec()
}

// ---- the check for one document ----

// probe conversions run after every document (wire form, expected plain form)
var probeWires = [][2]string{{`1`, `1`}, {`{"p":[{"q":1},{"r":[2,3]}]}`, `{"p":{"q":1,"r":[2,3]}}`}}

type verdict struct {
	key string
	msg string
}

func jsonString(s string) string { b, _ := json.Marshal(s); return string(b) }

func checkDoc(d *node) *verdict { return checkDoc2(d, true) }

// checkDocSafe turns a panic inside the transform (or inside the JSON decoder reading its result) into a verdict.
func checkDocSafe(d *node) (v *verdict) {
	defer func() {
		if p := recover(); p != nil {
			v = &verdict{"C07|panic", fmt.Sprintf("converting %s panicked: %v", d.String(), p)}
		}
	}()
	return checkDoc(d)
}

func checkDoc2(d *node, cls bool) *verdict {
	classify := func(d *node, clause, msg string) *verdict {
		if !cls {
			return &verdict{"C07|" + clause, msg}
		}
		return classifyDoc(d, clause, msg)
	}
	in := d.String()
	want, err := parse([]byte(in))
	if err != nil {
		return &verdict{"engine|generator", "generator produced invalid JSON: " + in}
	}
	wire, err := ship.JsonIntoEEBUSJson([]byte(in))
	if err != nil {
		return classify(d, "into-error", fmt.Sprintf("JsonIntoEEBUSJson(%s) failed: %v", in, err))
	}
	// (a) shape: the wire form is the reference transform (outermost array brackets stripped by the library)
	ref := toEEBUS(want)
	gotWire, perr := parse([]byte("[" + wire + "]"))
	if perr != nil {
		return classify(d, "shape", fmt.Sprintf("wire form of %s is not JSON: %q", in, wire))
	}
	if canon(gotWire) != canon(ref) {
		return classify(d, "shape", fmt.Sprintf("wire form of %s is %s, reference says %s", in, wire, ref.String()))
	}
	// (b) round trip
	wireIn := []byte(wire)
	back := ship.JsonFromEEBUSJson(wireIn)
	// (b') the transform is a function of its argument only: later conversions leave an earlier result and
	// the argument untouched (history dimension: every document followed by two probe conversions)
	backCopy := string(back)
	for _, probe := range probeWires {
		pb := ship.JsonFromEEBUSJson([]byte(probe[0]))
		if string(pb) != probe[1] {
			return &verdict{"C07|history-dependent", fmt.Sprintf("after converting %s the probe %s converts to %s instead of %s", wire, probe[0], pb, probe[1])}
		}
		_, _ = ship.JsonIntoEEBUSJson([]byte(probe[1]))
	}
	if string(back) != backCopy {
		return &verdict{"C07|result-overwritten", fmt.Sprintf("the result of JsonFromEEBUSJson(%s) changed from %s to %s when another document was converted afterwards", wire, backCopy, back)}
	}
	if string(wireIn) != wire {
		return &verdict{"C07|argument-modified", fmt.Sprintf("JsonFromEEBUSJson modified its argument %s into %s", wire, wireIn)}
	}
	got, perr := parse(back)
	if perr != nil {
		return classify(d, "roundtrip", fmt.Sprintf("%s -> %s -> %q is not JSON (%v)", in, wire, back, perr))
	}
	if canon(got) != canon(want) {
		return classify(d, "roundtrip", fmt.Sprintf("%s -> %s -> %s", in, wire, back))
	}
	// (c) receive path composition: data envelope as the sender builds it, parsed the way the receiver does
	frame := `{"data":[{"header":[{"protocolId":"ee1.0"}]},{"payload":` + wire + `}]}`
	var sd model.ShipData
	if err := json.Unmarshal(ship.JsonFromEEBUSJson([]byte(frame)), &sd); err != nil {
		return classify(d, "envelope", fmt.Sprintf("envelope with payload %s does not parse on the receiving side: %v", in, err))
	}
	pgot, perr := parse([]byte(sd.Data.Payload))
	if perr != nil || canon(pgot) != canon(want) {
		return classify(d, "envelope", fmt.Sprintf("payload %s arrives as %s", in, string(sd.Data.Payload)))
	}
	return nil
}

// classify finds the structural cause class of a failing document (the known-finding key) by
// repairing one feature at a time and re-checking: the cause is the feature whose removal makes
// the document pass.
func classifyDoc(d *node, clause, msg string) *verdict {
	cause := "other"
	if d.kind == 'o' && len(d.kids) == 0 {
		cause = "top-level-empty-object"
	} else if checkDoc2(repair(d, true, false), false) == nil {
		cause = "empty-array"
	} else if checkDoc2(repair(d, false, true), false) == nil {
		cause = "string-contains-bracket-sequence"
	} else if checkDoc2(repair(d, true, true), false) == nil {
		cause = "string-contains-bracket-sequence"
	}
	return &verdict{"C07|" + clause + "|" + cause, msg}
}


func hasSeq(s string) bool {
	for _, seq := range []string{"[{", "},{", "}]", "[]"} {
		if strings.Contains(s, seq) {
			return true
		}
	}
	return false
}

// repair returns a copy of d with empty arrays made non-empty and/or bracket-sequence strings made harmless.
func repair(d *node, arrays, strs bool) *node {
	c := &node{kind: d.kind, raw: d.raw}
	if strs && d.kind == 's' && strings.HasPrefix(d.raw, `"`) {
		var v string
		_ = json.Unmarshal([]byte(d.raw), &v)
		if hasSeq(v) {
			c.raw = `"s"`
		}
	}
	for i, k := range d.kids {
		if d.kind == 'o' {
			key := d.keys[i]
			if strs && hasSeq(key) {
				key = fmt.Sprintf("k%d", i)
			}
			c.keys = append(c.keys, key)
		}
		c.kids = append(c.kids, repair(k, arrays, strs))
	}
	if arrays && d.kind == 'a' && len(d.kids) == 0 {
		c.kids = []*node{{kind: 's', raw: "0"}}
	}
	return c
}

func main() {
	tier := flag.String("tier", "quick", "")
	seed := flag.Int64("seed", 0, "")
	evidence := flag.String("evidence", "", "")
	known := flag.String("known", "", "")
	replays := flag.String("replays", "/var/tmp", "")
	replay := flag.String("replay", "", "")
	flag.Parse()
	start := time.Now()

	if *replay != "" {
		b, _ := os.ReadFile(*replay)
		var art struct {
			Key    string `json:"key"`
			Replay struct{ Doc string } `json:"replay"`
		}
		_ = json.Unmarshal(b, &art)
		d, err := parseGen([]byte(art.Replay.Doc))
		if err != nil {
			fmt.Println("cannot parse replay document:", err)
			os.Exit(2)
		}
		if v := checkDocSafe(d); v != nil {
			fmt.Println(v.key, v.msg)
			fmt.Printf("VIOLATION property=C07 replay=%s\n", *replay)
			os.Exit(1)
		}
		fmt.Println("not reproduced")
		os.Exit(0)
	}

	nStruct, nScalar := 6, 4
	if *tier == "thorough" {
		nStruct, nScalar = 7, 5
	}
	special := []string{`"[{"`, `"},{"`, `"}]"`, `"[]"`, `"a,b"`, `"\"q\""`, `"\\"`, `"é"`, `"<&>"`, `"{\"place\":\"holder\"}"`, `"\"[]\""`, `"a\"}]\"b"`, `"\\\"[{"`, `"\\u003c"`, `"a\\u0026\\u003e"`, `"datagram"`, `""`, `"x"`,
		`null`, `true`, `false`, `0`, `-1.50`, `1E400`, `12345678901234567890.123456789`, `1.0`}
	families := []struct {
		name string
		g    gen
		max  int
	}{
		{"structure", gen{scalars: []string{`1`, `"x"`}, keys: []string{"a", "b", "c"}, maxKids: 3}, nStruct},
		{"scalars", gen{scalars: special, keys: []string{"a", "[{", "}]"}, maxKids: 2}, nScalar},
		// member names that JSON has to escape differently from Go's %q (control characters, DEL, a non-printable
		// code point above U+FFFF), in one- and two-member objects at every level
		{"names", gen{scalars: []string{`1`, `"x"`}, keys: []string{"a", "\u0001", "\u007f", "\U000f0000", "\t\"\\"}, maxKids: 2}, nStruct - 1},
	}

	type res struct {
		n        int
		nontriv  int
		viol     map[string]*verdict
		violDoc  map[string]string
		violCnt  map[string]int
		samples  []string
	}
	total := res{viol: map[string]*verdict{}, violDoc: map[string]string{}, violCnt: map[string]int{}}
	var mu sync.Mutex
	// sequential pass (one goroutine, so that nothing but the call history can influence a result): all small
	// documents, each followed by the probe conversions of checkDoc2 (b')
	seqDocs := 0
	for _, fam := range families {
		for n := 1; n <= fam.max-2; n++ {
			fam.g.trees(n, true, func(t *node) {
				seqDocs++
				d := clone(t)
				if v := checkDocSafe(d); v != nil {
					total.violCnt[v.key]++
					if old, ok := total.violDoc[v.key]; !ok || len(d.String()) < len(old) {
						total.viol[v.key] = v
						total.violDoc[v.key] = d.String()
					}
				}
			})
		}
	}
	for k := range total.violCnt {
		total.violCnt[k] = 0 // counted again by the full enumeration below
	}
	for _, fam := range families {
		for n := 1; n <= fam.max; n++ {
			// shard by the index of the document
			docs := make(chan *node, 4096)
			var wg sync.WaitGroup
			for w := 0; w < runtime.NumCPU(); w++ {
				wg.Add(1)
				go func() {
					defer wg.Done()
					local := res{viol: map[string]*verdict{}, violDoc: map[string]string{}, violCnt: map[string]int{}}
					for d := range docs {
						local.n++
						if nontrivial(d) {
							local.nontriv++
						}
						if v := checkDocSafe(d); v != nil {
							local.violCnt[v.key]++
							if old, ok := local.violDoc[v.key]; !ok || len(d.String()) < len(old) {
								local.viol[v.key] = v
								local.violDoc[v.key] = d.String()
							}
						}
					}
					mu.Lock()
					total.n += local.n
					total.nontriv += local.nontriv
					for k, v := range local.viol {
						total.violCnt[k] += local.violCnt[k]
						if old, ok := total.violDoc[k]; !ok || len(local.violDoc[k]) < len(old) {
							total.viol[k] = v
							total.violDoc[k] = local.violDoc[k]
						}
					}
					mu.Unlock()
				}()
			}
			cnt := 0
			fam.g.trees(n, true, func(t *node) {
				cnt++
				if cnt%997 == 1 && len(total.samples) < 12 {
					total.samples = append(total.samples, t.String())
				}
				docs <- clone(t)
			})
			close(docs)
			wg.Wait()
		}
	}

	// known findings
	type kf struct{ Property, Key, What string }
	var kfile struct{ Findings []kf }
	if b, err := os.ReadFile(*known); err == nil {
		_ = json.Unmarshal(b, &kfile)
	}
	isKnown := func(key string) *kf {
		for i, k := range kfile.Findings {
			if k.Property == "C07" && (k.Key == key || (strings.HasSuffix(k.Key, "*") && strings.HasPrefix(key, strings.TrimSuffix(k.Key, "*")))) {
				return &kfile.Findings[i]
			}
		}
		return nil
	}
	var keys []string
	for k := range total.viol {
		keys = append(keys, k)
	}
	sort.Strings(keys)
	newV, knownSeen := 0, 0
	for _, k := range keys {
		if f := isKnown(k); f != nil {
			knownSeen++
			fmt.Printf("KNOWN-FINDING: property=C07 %s [%s] (%d documents, smallest %s)\n", f.What, k, total.violCnt[k], total.violDoc[k])
			continue
		}
		newV++
		path := fmt.Sprintf("%s/C07-%x.json", *replays, hash(k))
		b, _ := json.MarshalIndent(map[string]any{"property": "C07", "key": k, "msg": total.viol[k].msg, "count": total.violCnt[k], "replay": map[string]any{"doc": total.violDoc[k]}}, "", " ")
		_ = os.WriteFile(path, b, 0o644)
		fmt.Printf("VIOLATION property=C07 replay=%s\n  key=%s (%d documents): %s\n", path, k, total.violCnt[k], total.viol[k].msg)
	}
	var samples []any
	for _, s := range total.samples {
		samples = append(samples, s)
	}
	ev := map[string]any{"property_id": "C07", "tier": *tier, "seed": *seed, "level": "exploration",
		"coverage": map[string]any{"evaluations": total.n, "distinct_nontrivial": total.nontriv,
			"rule": fmt.Sprintf("all JSON documents with a top-level object and <= %d nodes over the structural alphabet (scalars 1,\"x\"; keys a,b,c; <=3 members) plus all documents with <= %d nodes over the scalar alphabet (%d scalars incl. bracket sequences, escapes, big numbers; keys incl. bracket sequences; <=2 members); every document is distinct by construction; non-trivial = contains a nested container, an empty container, a bracket-sequence string or a non-float64 number", nStruct, nScalar, len(special)),
			"samples": samples, "exhaustive": true, "sequential_history_pass_documents": seqDocs, "known_findings_seen": knownSeen, "violation_classes": len(keys)},
		"assumptions": []string{"duplicate member names and invalid UTF-8 excluded (no defined semantics)", "the receive-path clause composes the public functions the way shipModelFromMessage does; the end-to-end path through two connections is covered by the C06 pair harness"},
		"wall_s":      time.Since(start).Seconds(), "violations": newV}
	if *evidence != "" {
		b, _ := json.MarshalIndent(ev, "", " ")
		_ = os.WriteFile(*evidence, b, 0o644)
	}
	fmt.Printf("C07 %s: documents=%d nontrivial=%d violations=%d known=%d wall=%.1fs\n", *tier, total.n, total.nontriv, newV, knownSeen, time.Since(start).Seconds())
	if newV > 0 {
		os.Exit(1)
	}
}

func hash(s string) uint32 {
	h := uint32(2166136261)
	for i := 0; i < len(s); i++ {
		h ^= uint32(s[i])
		h *= 16777619
	}
	return h
}

func clone(n *node) *node {
	c := &node{kind: n.kind, raw: n.raw, keys: append([]string(nil), n.keys...)}
	for _, k := range n.kids {
		c.kids = append(c.kids, clone(k))
	}
	return c
}

func nontrivial(d *node) bool {
	nt := false
	var walk func(n *node, depth int)
	walk = func(n *node, depth int) {
		if n.kind != 's' && (len(n.kids) == 0 || depth >= 1) {
			nt = true
		}
		if n.kind == 's' && (strings.ContainsAny(n.raw, "[]{}\\") || strings.Contains(n.raw, "E400") || len(n.raw) > 20) {
			nt = true
		}
		for _, k := range n.kids {
			walk(k, depth+1)
		}
	}
	walk(d, 0)
	return nt
}

// parseGen parses a document text back into a generator tree (scalars keep their raw text).
func parseGen(data []byte) (*node, error) {
	dec := json.NewDecoder(bytes.NewReader(data))
	dec.UseNumber()
	var rec func() (*node, error)
	rec = func() (*node, error) {
		t, err := dec.Token()
		if err != nil {
			return nil, err
		}
		switch v := t.(type) {
		case json.Delim:
			if v == '{' {
				n := &node{kind: 'o'}
				for dec.More() {
					kt, _ := dec.Token()
					c, err := rec()
					if err != nil {
						return nil, err
					}
					n.keys = append(n.keys, kt.(string))
					n.kids = append(n.kids, c)
				}
				dec.Token()
				return n, nil
			}
			n := &node{kind: 'a'}
			for dec.More() {
				c, err := rec()
				if err != nil {
					return nil, err
				}
				n.kids = append(n.kids, c)
			}
			dec.Token()
			return n, nil
		case json.Number:
			return &node{kind: 's', raw: string(v)}, nil
		case string:
			return &node{kind: 's', raw: jsonString(v)}, nil
		case bool:
			return &node{kind: 's', raw: fmt.Sprint(v)}, nil
		}
		return &node{kind: 's', raw: "null"}, nil
	}
	return rec()
}
