module verifdirect

go 1.22.0

require (
	github.com/enbility/ship-go v0.0.0
	github.com/gorilla/websocket v1.5.3
)

require gitlab.com/c0b/go-ordered-json v0.0.0-20201030195603-febf46534d5a // indirect

replace github.com/enbility/ship-go => /repo
