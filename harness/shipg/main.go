// shipg: explicit-state search over the real ShipConnection (one endpoint, the harness is the
// adversarial peer, the transport and the application). Serves C01 (ship level), C04, C06 (buffering),
// C08 (ship level) and C09 with one exploration and per-property monitors.
package main

import (
	"errors"
	"flag"
	"fmt"
	"sort"
	"strings"
	"time"

	"github.com/enbility/ship-go/model"
	"github.com/enbility/ship-go/ship"
	"github.com/enbility/ship-go/zzverif/hx"
	"github.com/enbility/ship-go/zzverif/shipx"
	"github.com/enbility/ship-go/zzverif/simrt"
)

var prop = flag.String("prop", "C04", "C01|C04|C06|C08|C09")

type cfg struct {
	server  bool
	trust   string // paired | auto | none
	allow   bool   // AllowWaitingForTrust
	shipID  string // stored SHIP ID of the peer ("" = unknown)
	alpha   string // alphabet selection
	faults  bool
	userOps bool
}

func (c cfg) name() string {
	r := "client"
	if c.server {
		r = "server"
	}
	return fmt.Sprintf("%s/trust=%s/wait=%v/id=%q/%s", r, c.trust, c.allow, c.shipID, c.alpha)
}

type msg struct {
	id    string
	frame []byte
	class string
}

func baseAlphabet() []msg {
	u8 := `["JSON-UTF8"]`
	return []msg{
		{"init", shipx.Init(), "init"},
		{"initBadType", []byte{1, 0}, "init"},
		{"initBadVal", []byte{0, 1}, "init"},
		{"initLong", []byte{0, 0, 0}, "init"},
		{"helloReady", shipx.Hello("ready", 60000, 0), "hello"},
		{"helloReadyNoWait", shipx.Hello("ready", -1, 0), "hello"},
		{"helloReadyShort", shipx.Hello("ready", 999, 0), "hello"},
		{"helloReadyMid", shipx.Hello("ready", 5000, 0), "hello"},
		{"helloPending", shipx.Hello("pending", 60000, 0), "hello"},
		{"helloPendingShort", shipx.Hello("pending", 500, 0), "hello"},
		{"helloPendingMid", shipx.Hello("pending", 5000, 0), "hello"},
		{"helloPendingProlong", shipx.Hello("pending", -1, 1), "hello"},
		{"helloPendingProlongFalse", shipx.Hello("pending", -1, 2), "hello"},
		{"helloPendingBare", shipx.Hello("pending", -1, 0), "hello"},
		{"helloAborted", shipx.Hello("aborted", -1, 0), "hello"},
		{"helloBogus", shipx.Hello("bogus", -1, 0), "hello"},
		{"protAnnounce", shipx.Prot("announceMax", 1, 0, u8), "prot"},
		{"protSelect", shipx.Prot("select", 1, 0, u8), "prot"},
		{"protSelect11", shipx.Prot("select", 1, 1, u8), "prot"},
		{"protSelectUTF16", shipx.Prot("select", 1, 0, `["JSON-UTF16"]`), "prot"},
		{"protSelectTwo", shipx.Prot("select", 1, 0, `["JSON-UTF8","JSON-UTF16"]`), "prot"},
		{"protSelectNoFormats", shipx.Prot("select", 1, 0, "-"), "prot"},
		{"protBogus", shipx.Prot("bogus", 1, 0, u8), "prot"},
		{"protError", shipx.ProtError(2), "prot"},
		{"pinNone", shipx.Pin("none"), "pin"},
		{"pinRequired", shipx.Pin("required"), "pin"},
		{"pinBogus", shipx.Pin("bogus"), "pin"},
		{"accReq", shipx.AccessRequest(), "access"},
		{"accA", shipx.AccessMethods("A"), "access"},
		{"accB", shipx.AccessMethods("B"), "access"},
		{"accEmpty", shipx.AccessMethods(""), "access"},
		// SHIP IDs containing quotes and sequences the EEBUS JSON rewrite looks for (Q1 and Q2 differ only there)
		{"accQ1", shipx.AccessMethods(`Q \"r{}\" 1`), "access"},
		{"accQ2", shipx.AccessMethods(`Q \"r[]\" 1`), "access"},
		{"accNoID", shipx.AccessMethodsRaw(""), "access"},
		{"accNumID", shipx.AccessMethodsRaw(`{"id":5}`), "access"},
		{"accNullID", shipx.AccessMethodsRaw(`{"id":null}`), "access"},
		{"closeAnnounce", shipx.CloseMsg("announce"), "close"},
		{"closeConfirm", shipx.CloseMsg("confirm"), "close"},
		{"closeBogus", shipx.CloseMsg("bogus"), "close"},
		{"data1", shipx.Data(shipx.Datagram(1)), "data"},
		{"data2", shipx.Data(shipx.Datagram(2)), "data"},
		{"dataNoPayload", []byte("\x02{\"data\":[{\"header\":[{\"protocolId\":\"ee1.0\"}]},{\"x\":\"datagram\"}]}"), "data"},
		{"notJSON", []byte("\x01{"), "junk"},
		{"wrongKey", []byte("\x01{\"foo\":[{\"bar\":1}]}"), "junk"},
	}
}

// valid handshake messages only (the smallest alphabet that reaches every phase)
func coreIDs() map[string]bool {
	return set("init", "helloReady", "helloPending", "helloPendingMid", "helloPendingProlong", "helloAborted", "protAnnounce", "protSelect", "pinNone", "accReq", "accA", "accB",
		"closeAnnounce", "closeConfirm", "data1", "data2", "notJSON")
}

func set(xs ...string) map[string]bool {
	m := map[string]bool{}
	for _, x := range xs {
		m[x] = true
	}
	return m
}

func alphabetFor(sel string) []msg {
	all := baseAlphabet()
	switch sel {
	case "full":
		return all
	case "mut":
		return all
	case "core":
		var out []msg
		for _, m := range all {
			if coreIDs()[m.id] {
				out = append(out, m)
			}
		}
		return out
	case "access":
		keep := set("init", "helloReady", "protAnnounce", "protSelect", "pinNone", "accReq", "accA", "accB", "accEmpty", "accQ1", "accQ2", "accNoID", "accNumID", "accNullID", "data1", "notJSON")
		var out []msg
		for _, m := range all {
			if keep[m.id] {
				out = append(out, m)
			}
		}
		return out
	}
	return all
}

// ---- world ----

type world struct {
	c                                                cfg
	L                                                *shipx.Log
	W                                                *shipx.Writer
	P                                                *shipx.Provider
	C                                                *ship.ShipConnection
	inbox                                            [][]byte
	busy                                             bool
	reported                                         bool
	trustLog                                         []string
	dataIn                                           []string // payloads of accepted data frames in arrival order
	dataIDs                                          []string
	spawnGen                                         map[int]uint64
	mon                                              *shipx.TimerMonitor
	approveCalls, cancelCalls, closeCalls, appWrites int
	delivered                                        map[string]int
	class                                            string // names the class of a schedule scenario whose findings are keyed separately ("" otherwise)
}

func newWorld(c cfg) *world {
	simrt.ClearTraceHooks()
	w := &world{c: c, L: &shipx.Log{Name: "ep"}, spawnGen: map[int]uint64{}, delivered: map[string]int{}}
	w.W = &shipx.Writer{L: w.L}
	w.P = &shipx.Provider{L: w.L, Paired: c.trust == "paired", AutoAccept: c.trust == "auto", AllowWaiting: c.allow}
	w.mon = shipx.InstallTimerMonitor()
	role := ship.ShipRoleClient
	if c.server {
		role = ship.ShipRoleServer
	}
	w.C = ship.NewConnectionHandler(w.P, w.W, role, "local", "peer-ski", c.shipID)
	simrt.OnSpawn(func(id int, name string) {
		if strings.Contains(name, "setHandshakeTimer") {
			w.spawnGen[id] = w.gen()
		}
	})
	simrt.Go("reader", func() {
		for {
			simrt.Block("reader-idle", func() bool { return len(w.inbox) > 0 })
			f := w.inbox[0]
			w.inbox = w.inbox[1:]
			if w.W.Closed {
				continue // like the read pump, which looks at the state of the socket once more before it hands a frame on
			}
			w.busy = true
			w.C.HandleIncomingWebsocketMessage(f)
			w.busy = false
		}
	})
	return w
}

func (w *world) gen() uint64 {
	if f, ok := hx.Field(w.C, "handshakeTimerGeneration"); ok && f.CanUint() {
		return f.Uint()
	}
	return 0
}

func (w *world) state() model.ShipMessageExchangeState {
	s, _ := w.C.ShipHandshakeState()
	return s
}

func (w *world) trusted() bool { return w.P.Paired || w.P.AutoAccept || !w.c.server }

// sorted armed timers: due ones first
func (w *world) timers() []simrt.TimerInfo {
	ts := simrt.Timers()
	sort.SliceStable(ts, func(i, j int) bool {
		if ts[i].In != ts[j].In {
			return ts[i].In < ts[j].In
		}
		if ts[i].Label != ts[j].Label {
			return ts[i].Label < ts[j].Label
		}
		return ts[i].ID < ts[j].ID
	})
	return ts
}

func (w *world) apply(ev string, alpha map[string]msg) {
	base := ev
	if i := strings.Index(ev, "!"); i >= 0 {
		base = ev[:i]
		var k int
		fmt.Sscanf(ev[i+1:], "%d", &k)
		w.W.FailAt = w.W.Writes + k
	}
	switch {
	case strings.HasPrefix(base, "P:"):
		var k int
		fmt.Sscanf(base[2:], "%d", &k)
		ps := probes()
		if k < len(ps) {
			w.L.Evs = append(w.L.Evs, shipx.Ev{T: simrt.Elapsed(), Kind: "deliver", Arg: "probe:" + ps[k].id})
			w.inbox = append(w.inbox, ps[k].frame)
		}
	case strings.HasPrefix(base, "D:"):
		m := alpha[base[2:]]
		if m.class == "data" && strings.HasPrefix(m.id, "data") && m.id != "dataNoPayload" {
			w.dataIn = append(w.dataIn, payloadOf(m.id))
			w.dataIDs = append(w.dataIDs, m.id)
		}
		w.delivered[m.id]++
		w.L.Evs = append(w.L.Evs, shipx.Ev{T: simrt.Elapsed(), Kind: "deliver", Arg: m.id})
		w.inbox = append(w.inbox, m.frame)
	case strings.HasPrefix(base, "T"):
		var k int
		fmt.Sscanf(base[1:], "%d", &k)
		ts := w.timers()
		if k < len(ts) {
			w.L.Evs = append(w.L.Evs, shipx.Ev{T: simrt.Elapsed(), Kind: "timer", Arg: ts[k].Label})
			simrt.FireTimer(ts[k].ID)
		}
	case base == "FLAG":
		w.W.Closed = true
		w.W.ClosedErr = errors.New("transport closed")
		w.L.Evs = append(w.L.Evs, shipx.Ev{T: simrt.Elapsed(), Kind: "transportdown"})
	case base == "REPORT":
		w.W.Closed = true
		w.W.ClosedErr = errors.New("transport closed")
		w.reported = true
		w.L.Evs = append(w.L.Evs, shipx.Ev{T: simrt.Elapsed(), Kind: "transportdown"})
		simrt.Go("pump", func() { w.C.ReportConnectionError(errors.New("transport error")) })
	case base == "APPROVE":
		w.approveCalls++
		w.P.Paired = true
		w.L.Evs = append(w.L.Evs, shipx.Ev{T: simrt.Elapsed(), Kind: "trust", Arg: "on"})
		simrt.Go("user", func() { w.C.ApprovePendingHandshake() })
	case base == "CANCEL":
		w.cancelCalls++
		w.L.Evs = append(w.L.Evs, shipx.Ev{T: simrt.Elapsed(), Kind: "trust", Arg: "off"})
		simrt.Go("user", func() { w.C.AbortPendingHandshake(); w.P.Paired = false })
	case base == "CLOSEsafe":
		w.closeCalls++
		w.L.Evs = append(w.L.Evs, shipx.Ev{T: simrt.Elapsed(), Kind: "userclose", Arg: "safe"})
		simrt.Go("user", func() { w.C.CloseConnection(true, 0, "user close") })
	case base == "CLOSEunsafe":
		w.closeCalls++
		w.L.Evs = append(w.L.Evs, shipx.Ev{T: simrt.Elapsed(), Kind: "userclose", Arg: "unsafe"})
		simrt.Go("user", func() { w.C.CloseConnection(false, 4001, "x") })
	case base == "WRITE":
		w.appWrites++
		n := w.appWrites
		wr := w.P.Writer
		simrt.Go("app", func() { wr.WriteShipMessageWithPayload([]byte(shipx.Datagram(100 + n))) })
	}
	simrt.Quiesce()
	w.W.FailAt = 0
}

func payloadOf(id string) string {
	if id == "data1" {
		return shipx.DatagramPlain(1)
	}
	return shipx.DatagramPlain(2)
}

var snapper = hx.NewSnapper("ShipConnection.infoProvider", "ShipConnection.dataWriter", "ShipConnection.dataReader",
	"ShipConnection.handshakeTimerGeneration", "ShipConnection.handshakeTimerStopChan")

func isTerminal(s model.ShipMessageExchangeState) bool {
	return s == model.SmeStateError || s == model.SmeHelloStateAbortDone || s == model.SmeHelloStateRemoteAbortDone || s == model.SmeHelloStateRejected
}

// dead: the transport is closed and nothing is pending any more; all such states behave alike
func (w *world) dead() bool {
	if !w.W.Closed || w.busy || len(w.inbox) > 0 {
		return false
	}
	cur := w.gen()
	for _, t := range simrt.Timers() {
		stale := false
		for _, th := range t.Waiters {
			if g, ok := w.spawnGen[th]; ok && g != cur && cur != 0 {
				stale = true
			}
		}
		if !stale {
			return false
		}
	}
	for _, th := range simrt.Threads() {
		if !th.Done && th.Name != "main" && th.Name != "reader" && !strings.Contains(th.Name, "setHandshakeTimer") {
			return false
		}
	}
	return true
}

func (w *world) key() string {
	var sb strings.Builder
	if w.dead() {
		run := false
		if f, ok := hx.Field(w.C, "handshakeTimerRunning"); ok {
			run = f.Bool()
		}
		return fmt.Sprintf("DEAD|%d|%v|rep=%v|paired=%v|%s|%d%d%d%d", uint(w.state()), run, w.reported, w.P.Paired, w.ghost(), cap2(w.approveCalls), cap2(w.cancelCalls), cap2(w.closeCalls), w.appWrites)
	}
	sb.WriteString(snapper.Snap(w.C))
	rd, _ := hx.Field(w.C, "dataReader")
	fmt.Fprintf(&sb, "|reader=%v|wclosed=%v|paired=%v|busy=%v|inbox=%d|rep=%v", rd.IsValid() && !rd.IsNil(), w.W.Closed, w.P.Paired, w.busy, len(w.inbox), w.reported)
	cur := w.gen()
	seenParts := map[string]int{}
	for _, t := range w.timers() {
		in := t.In
		if in < 0 {
			in = 0
		}
		stale := false
		for _, th := range t.Waiters {
			if g, ok := w.spawnGen[th]; ok && g != cur && cur != 0 {
				stale = true
			}
		}
		// identical pending delays (e.g. one close-delay goroutine per message received in a terminal
		// state) are kept with multiplicity capped at 2: they all end in the same once-guarded close
		addCapped(&sb, seenParts, fmt.Sprintf("|tm(%s,%v,%v)", t.Label, in, stale))
	}
	for _, th := range simrt.Threads() {
		if !th.Done && th.Name != "main" && th.Name != "reader" {
			addCapped(&sb, seenParts, fmt.Sprintf("|th(%s,%s)", th.Name, th.OpKind))
		}
	}
	// ghost state the monitors depend on
	g := w.ghost()
	if w.mon != nil && w.mon.Answered(w.C) {
		sb.WriteString("|timer-answered")
	}
	fmt.Fprintf(&sb, "|g=%s|u=%d%d%d%d", g, cap2(w.approveCalls), cap2(w.cancelCalls), cap2(w.closeCalls), w.appWrites)
	return sb.String()
}

func addCapped(sb *strings.Builder, seen map[string]int, part string) {
	seen[part]++
	if seen[part] <= 2 {
		sb.WriteString(part)
	}
}

func cap2(n int) int {
	if n > 2 {
		return 2
	}
	return n
}

// ghost summarises the history-dependent facts the selected property's monitors use (bounded).
func (w *world) ghost() string {
	term, helloOK, setup, shipids, closed, payloads := false, false, 0, 0, 0, 0
	last := -1
	for _, e := range w.L.Evs {
		switch e.Kind {
		case "state":
			last = e.N
			if isTerminal(model.ShipMessageExchangeState(e.N)) {
				term = true
			}
			if e.N == int(model.SmeHelloStateOk) {
				helloOK = true
			}
		case "setup":
			setup++
		case "shipid":
			shipids++
		case "closed":
			closed++
		case "payload":
			payloads++
		}
	}
	c1 := func(n int) int {
		if n > 1 {
			return 1
		}
		return n
	}
	switch *prop {
	case "C04":
		return fmt.Sprintf("%v,%d,%d,%d", term, c1(closed), last, c1(setup))
	case "C01":
		return fmt.Sprintf("%v,%d", helloOK, c1(setup))
	case "C06":
		return fmt.Sprintf("%d,%d,%v", c1(setup), payloads, w.dataIDs)
	case "C09":
		return fmt.Sprintf("%d,%d,%s", c1(setup), cap2(shipids), w.lastAccID())
	}
	return ""
}

func (w *world) lastAccID() string {
	for i := len(w.L.Evs) - 1; i >= 0; i-- {
		if w.L.Evs[i].Kind == "deliver" && strings.HasPrefix(w.L.Evs[i].Arg, "acc") && w.L.Evs[i].Arg != "accReq" {
			return w.L.Evs[i].Arg
		}
	}
	return ""
}

func (w *world) enabled(alpha []msg) []string {
	var out []string
	nData := len(w.dataIn)
	// one message in flight at a time: while the receive loop is busy (e.g. sleeping in the close
	// handshake) further frames wait in the socket and are processed afterwards, in order
	if !w.W.Closed && !w.busy && len(w.inbox) == 0 {
		for _, m := range alpha {
			if m.class == "data" && strings.HasPrefix(m.id, "data") && m.id != "dataNoPayload" && nData >= 2 {
				continue
			}
			if w.delivered[m.id] >= 2 {
				continue // the same message more than three times adds nothing but prolongation cycles
			}
			out = append(out, "D:"+m.id)
		}
	}
	ts := w.timers()
	for k, t := range ts {
		if t.In <= ts[0].In || t.In <= 0 {
			out = append(out, fmt.Sprintf("T%d", k))
		}
	}
	if !w.W.Closed {
		out = append(out, "FLAG")
	}
	if !w.reported {
		out = append(out, "REPORT")
	}
	if w.c.userOps {
		if w.approveCalls < 1 {
			out = append(out, "APPROVE")
		}
		if w.cancelCalls < 1 {
			out = append(out, "CANCEL")
		}
		if w.closeCalls < 1 {
			out = append(out, "CLOSEsafe", "CLOSEunsafe")
		}
	}
	if w.P.Writer != nil && w.appWrites < 2 {
		out = append(out, "WRITE")
	}
	return out
}

func build(c cfg) func(hist []string) hx.GView {
	alphaList := alphabetFor(c.alpha)
	alpha := map[string]msg{}
	for _, m := range alphaList {
		alpha[m.id] = m
	}
	return func(hist []string) hx.GView {
		w := newWorld(c)
		w.C.Run()
		simrt.Quiesce()
		from, writes0 := 0, 0
		var pre model.ShipMessageExchangeState
		for i, ev := range hist {
			if i == len(hist)-1 {
				from, writes0 = len(w.L.Evs), w.W.Writes
				pre = w.state()
			}
			w.apply(ev, alpha)
		}
		w.monitors(hist, from, pre)
		obs := ""
		if len(hist) > 0 {
			obs = strings.Join(w.L.Strings(from), " ") + " -> " + shipx.StateName(w.state())
		}
		var tags []string
		seenTag := map[string]bool{}
		for _, e := range w.L.Evs[from:] {
			tg := ""
			switch e.Kind {
			case "setup", "shipid", "payload", "closed", "writefail", "wsclose":
				tg = e.Kind
			case "state":
				switch {
				case e.N == int(model.SmeStateComplete):
					tg = "complete"
				case e.N == int(model.SmeHelloStateOk):
					tg = "hello-ok"
				case isTerminal(model.ShipMessageExchangeState(e.N)):
					tg = "terminal:" + shipx.StateName(model.ShipMessageExchangeState(e.N))
				}
			}
			if tg != "" && !seenTag[tg] && len(hist) > 0 {
				seenTag[tg] = true
				tags = append(tags, tg)
			}
		}
		return hx.GView{Key: w.key(), Enabled: w.enabled(alphaList), Writes: w.W.Writes - writes0, Obs: obs, Tags: tags,
			Class: fmt.Sprintf("%d/%v", uint(w.state()), w.W.Closed)}
	}
}

// ---- monitors (evaluated on the whole history after every transition) ----

var closingFrames = []string{"connectionHello:[{phase:aborted", "messageProtocolHandshakeError", "connectionClose"}

func (w *world) monitors(hist []string, from int, pre model.ShipMessageExchangeState) {
	evs := w.L.Evs
	// C04: edge conformance and finality
	var prev = -1
	termAt := -1
	lastEv := ""
	if len(hist) > 0 {
		lastEv = hist[len(hist)-1]
	}
	for i, e := range evs {
		if e.Kind != "state" {
			continue
		}
		s := e.N
		if prev >= 0 && s != prev && !edgeAllowed(w.c.server, prev, s) {
			if i >= from {
				simrt.Fail(fmt.Sprintf("C04|edge|%s->%s", shipx.StateName(model.ShipMessageExchangeState(prev)), shipx.StateName(model.ShipMessageExchangeState(s))),
					"reported handshake transition %s -> %s is not in the SHIP state graph for role server=%v (event %s)", shipx.StateName(model.ShipMessageExchangeState(prev)), shipx.StateName(model.ShipMessageExchangeState(s)), w.c.server, lastEv)
			}
		}
		if termAt >= 0 && !isTerminal(model.ShipMessageExchangeState(s)) && i >= from {
			simrt.Fail(w.c04key("progress-after-terminal|"+shipx.StateName(model.ShipMessageExchangeState(s))), "state %s reported after the terminal outcome %s (event %s)", shipx.StateName(model.ShipMessageExchangeState(s)), evs[termAt].String(), lastEv)
		}
		if termAt < 0 && isTerminal(model.ShipMessageExchangeState(s)) {
			termAt = i
		}
		prev = s
	}
	closedAt := -1
	for i, e := range evs {
		if e.Kind == "closed" && closedAt < 0 {
			closedAt = i
		}
	}
	endAt := termAt
	if closedAt >= 0 && (endAt < 0 || closedAt < endAt) {
		endAt = closedAt
	}
	if endAt >= 0 {
		for i := endAt + 1; i < len(evs); i++ {
			e := evs[i]
			if i < from {
				continue
			}
			if e.Kind == "write" {
				ok := false
				for _, cf := range closingFrames {
					if strings.Contains(e.Arg, cf) {
						ok = true
					}
				}
				// a handler that was already sending when the end was detected may finish its own reply
				if !ok {
					simrt.Fail(w.c04key("send-after-terminal"), "frame %q written after the connection ended (%s) (event %s)", e.Arg, evs[endAt].String(), lastEv)
				}
			}
			if e.Kind == "setup" {
				simrt.Fail(w.c04key("setup-after-terminal"), "SetupRemoteDevice called after the connection ended (%s)", evs[endAt].String())
			}
			// the report of the connection's end is final as well: no progress state after it
			if e.Kind == "state" && closedAt >= 0 && i > closedAt && !isTerminal(model.ShipMessageExchangeState(e.N)) {
				simrt.Fail(w.c04key("progress-after-closed|"+shipx.StateName(model.ShipMessageExchangeState(e.N))), "state %s reported after the end of the connection was reported (event %s)", shipx.StateName(model.ShipMessageExchangeState(e.N)), lastEv)
			}
		}
		// no handshake timer left running; transport closed once no close delay is pending
		if f, ok := hx.Field(w.C, "handshakeTimerRunning"); ok && f.Bool() {
			simrt.Fail("C04|timer-armed-after-terminal", "the handshake timer is still marked running after the connection ended (%s) (event %s)", evs[endAt].String(), lastEv)
		}
		pendingDelay := false
		for _, t := range simrt.Timers() {
			if !strings.Contains(t.Label, "setHandshakeTimer") {
				pendingDelay = true
			}
		}
		if !pendingDelay && !w.W.Closed && !w.busy {
			simrt.Fail("C04|transport-not-closed", "the connection ended (%s) but the transport was not closed and no close delay is pending (event %s)", evs[endAt].String(), lastEv)
		}
	}
	// C14-style monitor findings are reported by the timer monitor itself (keys C14|...)

	// C01: trust gate
	trust := w.c.trust == "paired" || w.c.trust == "auto" || !w.c.server
	helloOK := false
	setupAt := -1
	for i, e := range evs {
		switch e.Kind {
		case "trust":
			if w.c.trust != "auto" && w.c.server {
				trust = e.Arg == "on"
			}
		case "state":
			st := model.ShipMessageExchangeState(e.N)
			if st == model.SmeHelloStateOk {
				if !trust && i >= from {
					simrt.Fail("C01|hello-ok-without-trust", "hello-ok reached although the local side never granted trust (event %s)", lastEv)
				}
				helloOK = true
			}
			if st == model.SmeStateComplete && !helloOK && i >= from {
				simrt.Fail("C01|complete-without-hello-ok", "handshake completed without a legitimate hello-ok (event %s)", lastEv)
			}
			if st == model.SmeStateComplete && setupAt < 0 && i >= from {
				simrt.Fail("C01|complete-before-setup", "state complete reported before SetupRemoteDevice (event %s)", lastEv)
			}
		case "setup":
			if setupAt < 0 {
				setupAt = i
			}
			if !helloOK && i >= from {
				simrt.Fail("C01|setup-without-trust", "SetupRemoteDevice called without a legitimate hello-ok (event %s)", lastEv)
			}
		case "payload":
			if (setupAt < 0 || !helloOK) && i >= from {
				simrt.Fail("C01|payload-before-setup", "a SPINE payload was handed to the application before the remote device was set up (event %s)", lastEv)
			}
		}
	}
	// C06: exactly once, in arrival order, only after completion
	var got []string
	completeAt := -1
	for i, e := range evs {
		if e.Kind == "state" && model.ShipMessageExchangeState(e.N) == model.SmeStateComplete && completeAt < 0 {
			completeAt = i
		}
		if e.Kind == "payload" {
			got = append(got, e.Arg)
			if completeAt < 0 && i >= from {
				simrt.Fail("C06|delivered-before-completion", "a SPINE payload was handed to the application before the handshake was reported complete (event %s)", lastEv)
			}
		}
	}
	if setupAt >= 0 && !w.busy && len(w.inbox) == 0 {
		// everything that arrived must have been delivered, in order
		if len(got) != len(w.dataIn) {
			if st := w.state(); st == model.SmeStateComplete && !w.W.Closed {
				simrt.Fail("C06|lost-or-duplicated", "arrived %d datagrams, delivered %d after completion (event %s)", len(w.dataIn), len(got), lastEv)
			}
		}
	}
	for i, g := range got {
		if i >= len(w.dataIn) {
			simrt.Fail("C06|duplicated", "more payloads delivered (%d) than arrived (%d)", len(got), len(w.dataIn))
			break
		}
		if normalise(g) != normalise(w.dataIn[i]) {
			simrt.Fail("C06|order-or-content", "payload #%d delivered as %s but arrival #%d was %s", i, g, i, w.dataIn[i])
			break
		}
	}
	// C09: SHIP ID pinning
	shipids := 0
	shipidAt := -1
	for i, e := range evs {
		if e.Kind == "shipid" {
			shipids++
			shipidAt = i
			if w.c.shipID != "" && i >= from {
				simrt.Fail("C09|report-although-known", "ReportServiceShipID(%s) called although the SHIP ID %q was already known", e.Arg, w.c.shipID)
			}
		}
	}
	if shipids > 1 {
		simrt.Fail("C09|reported-twice", "the SHIP ID was reported %d times", shipids)
	}
	if setupAt >= 0 {
		// which id was presented by the access-methods message that was processed last before setup
		presented := ""
		for i := setupAt; i >= 0; i-- {
			if evs[i].Kind == "deliver" && strings.HasPrefix(evs[i].Arg, "acc") && evs[i].Arg != "accReq" {
				presented = evs[i].Arg
				break
			}
		}
		idOf := map[string]string{"accA": "A", "accB": "B", "accEmpty": "", "accQ1": `Q "r{}" 1`, "accQ2": `Q "r[]" 1`}
		id, known := idOf[presented]
		if !known {
			simrt.Fail("C09|setup-without-id", "remote device set up although the peer presented no usable SHIP ID (%q)", presented)
		} else if w.c.shipID != "" && id != w.c.shipID {
			simrt.Fail("C09|mismatch-accepted", "stored SHIP ID %q but the handshake completed with presented id %q", w.c.shipID, id)
		} else if w.c.shipID == "" {
			if shipids == 0 && id != "" {
				simrt.Fail("C09|not-reported", "unknown SHIP ID %q was not reported before the remote device was set up", id)
			}
			if shipidAt > setupAt {
				simrt.Fail("C09|reported-after-setup", "the SHIP ID was reported after SetupRemoteDevice")
			}
			if shipids > 0 && evs[shipidAt].Arg != id {
				simrt.Fail("C09|wrong-id-reported", "reported SHIP ID %q but the peer presented %q", evs[shipidAt].Arg, id)
			}
		}
	}
	// C08: the receive loop must not be wedged: at quiescence the reader is idle or sleeping on a bounded close delay
	if w.busy {
		okWait := false
		for _, t := range simrt.Timers() {
			if t.In <= time.Second && !strings.Contains(t.Label, "setHandshakeTimer") {
				okWait = true
			}
		}
		if !okWait {
			simrt.Fail("C08|reader-wedged", "the receive loop is blocked inside the handler after %s (no bounded wait pending)", lastEv)
		}
	}
}

// c04key: findings of the schedule scenarios in which the user closes the connection while an input (a message of the
// peer, a decision of the user, a timer expiry) is being handled are keyed as a class of their own (see known_findings.json)
func (w *world) c04key(k string) string {
	if w.class != "" {
		return "C04|" + w.class + "|" + k
	}
	return "C04|" + k
}

func normalise(s string) string { return strings.Join(strings.Fields(s), "") }

// SHIP 1.0.1 section 13.4 state graph as reported by an implementation (terminal = error 39, abort done 15,
// remote abort done 16, rejected 17); any non-terminal state may go to error.
func edgeAllowed(server bool, a, b int) bool {
	if b == 39 {
		return !isTerminal(model.ShipMessageExchangeState(a)) || a == 39
	}
	if isTerminal(model.ShipMessageExchangeState(a)) {
		return isTerminal(model.ShipMessageExchangeState(b))
	}
	type e [2]int
	common := []e{{6, 7}, {6, 10}, {7, 8}, {8, 13}, {8, 14}, {8, 16}, {8, 17}, {10, 11}, {11, 7}, {11, 14}, {11, 16}, {14, 15}, {7, 14}, {10, 14},
		{26, 27}, {27, 31}, {31, 36}, {36, 37}, {37, 38}}
	srv := []e{{0, 4}, {4, 5}, {5, 6}, {13, 18}, {18, 20}, {20, 21}, {21, 25}, {25, 26}}
	cli := []e{{0, 1}, {1, 2}, {2, 3}, {3, 6}, {13, 19}, {19, 22}, {22, 24}, {24, 26}}
	for _, x := range common {
		if x[0] == a && x[1] == b {
			return true
		}
	}
	role := cli
	if server {
		role = srv
	}
	for _, x := range role {
		if x[0] == a && x[1] == b {
			return true
		}
	}
	return false
}

func models(r *hx.Run) []hx.GModel {
	var cfgs []cfg
	th := r.Thorough()
	switch *prop {
	case "C04", "C14":
		alpha := "core"
		if th {
			alpha = "full"
		}
		for _, server := range []bool{true, false} {
			for _, trust := range []string{"paired", "none", "auto"} {
				if !server && trust != "paired" {
					continue
				}
				for _, allow := range []bool{true, false} {
					if trust != "none" && !allow {
						continue
					}
					if !th && trust == "auto" {
						continue
					}
					cfgs = append(cfgs, cfg{server: server, trust: trust, allow: allow, alpha: alpha, faults: true, userOps: true})
				}
			}
		}
	case "C01":
		alpha := "core"
		if th {
			alpha = "full"
		}
		for _, trust := range []string{"none", "paired", "auto"} {
			for _, allow := range []bool{true, false} {
				if trust != "none" && !allow {
					continue
				}
				cfgs = append(cfgs, cfg{server: true, trust: trust, allow: allow, alpha: alpha, userOps: true})
			}
		}
		cfgs = append(cfgs, cfg{server: false, trust: "paired", allow: true, alpha: alpha, userOps: true})
	case "C06":
		for _, server := range []bool{true, false} {
			cfgs = append(cfgs, cfg{server: server, trust: "paired", allow: true, alpha: "core"})
		}
		if th {
			cfgs = append(cfgs, cfg{server: true, trust: "none", allow: true, alpha: "core", userOps: true})
		}
	case "C09":
		for _, server := range []bool{true, false} {
			for _, id := range []string{"", "A", `Q "r{}" 1`} {
				cfgs = append(cfgs, cfg{server: server, trust: "paired", allow: true, shipID: id, alpha: "access"})
			}
		}
	case "C08":
		alpha := "full"
		for _, server := range []bool{true, false} {
			for _, trust := range []string{"paired", "none"} {
				if !server && trust != "paired" {
					continue
				}
				cfgs = append(cfgs, cfg{server: server, trust: trust, allow: true, alpha: alpha, userOps: trust == "none"})
			}
		}
	default:
		hx.EngineError("unknown -prop")
	}
	var out []hx.GModel
	for _, c := range cfgs {
		out = append(out, hx.GModel{Name: c.name(), Build: build(c), FaultVariants: c.faults, MaxStates: 400000})
	}
	return out
}

// ---- S part (C01, C04): two user operations on one pending request at the same time ----

// userRaceBody: server role, untrusted peer, the request is pending; ops (approve / cancel / close) are issued
// from threads of their own; afterwards the peer plays the rest of a cooperative handshake, ignoring whatever
// the connection sent (an abort included). The usual monitors judge the whole log.
func userRaceBody(ops []string, allow bool) func() {
	c := cfg{server: true, trust: "none", allow: allow, alpha: "core", userOps: true}
	alpha := map[string]msg{}
	for _, m := range alphabetFor("core") {
		alpha[m.id] = m
	}
	return func() {
		w := newWorld(c)
		w.C.Run()
		simrt.Quiesce()
		hist := []string{"D:init", "D:helloReady"}
		for _, ev := range hist {
			w.apply(ev, alpha)
		}
		for _, op := range ops {
			if op == "close" {
				w.class = "input-vs-user-close" // see known_findings.json
			}
		}
		simrt.Mark()
		for i, op := range ops {
			op := op
			simrt.Go(fmt.Sprintf("user%d-%s", i, op), func() {
				switch op {
				case "approve":
					// the approval is given when the call is made
					w.P.Paired = true
					w.L.Evs = append(w.L.Evs, shipx.Ev{T: simrt.Elapsed(), Kind: "trust", Arg: "on"})
					w.C.ApprovePendingHandshake()
				case "cancel":
					// a cancel has taken effect when the call returns
					w.C.AbortPendingHandshake()
					w.P.Paired = false
					w.L.Evs = append(w.L.Evs, shipx.Ev{T: simrt.Elapsed(), Kind: "trust", Arg: "off"})
				case "close":
					w.C.CloseConnection(false, 4001, "x")
				}
			})
		}
		simrt.Quiesce()
		simrt.Unmark()
		rest := []string{"D:helloReady", "D:protAnnounce", "D:protSelect", "D:pinNone", "D:accReq", "D:accA", "D:data1"}
		for _, ev := range rest {
			if w.W.Closed {
				break // peers cannot deliver anything after the transport was closed
			}
			w.apply(ev, alpha)
		}
		simrt.RunFor(70 * time.Second)
		w.monitors(append(hist, strings.Join(ops, "||")), 0, 0)
		simrt.Outcome(shipx.StateName(w.state()))
	}
}

// inputRaceBody: the earliest handshake timer expires at the very moment a message of the peer arrives or the user
// decides. The expiry is handled by the timer goroutine of the library, the message by the read pump, the decision
// by the caller's goroutine; every interleaving of them (within the bound) is judged by the usual monitors. The
// peer then plays the rest of a cooperative handshake as far as the connection lets it.
func inputRaceBody(c cfg, hist []string, first, other string, rest []string) func() {
	alpha := map[string]msg{}
	for _, m := range alphabetFor("core") {
		alpha[m.id] = m
	}
	return func() {
		w := newWorld(c)
		w.C.Run()
		simrt.Quiesce()
		for _, ev := range hist {
			w.apply(ev, alpha)
		}
		deliver := func(id string) {
			m := alpha[id]
			if m.class == "data" {
				w.dataIn = append(w.dataIn, payloadOf(m.id))
				w.dataIDs = append(w.dataIDs, m.id)
			}
			w.delivered[m.id]++
			w.L.Evs = append(w.L.Evs, shipx.Ev{T: simrt.Elapsed(), Kind: "deliver", Arg: m.id})
			w.inbox = append(w.inbox, m.frame)
		}
		ts := w.timers()
		if first == "T0" && (len(ts) == 0 || !strings.Contains(ts[0].Label, "setHandshakeTimer")) {
			simrt.Outcome("no-handshake-timer")
			return
		}
		if other == "CLOSE" {
			w.class = "input-vs-user-close"
		}
		simrt.Mark()
		if first == "T0" {
			w.L.Evs = append(w.L.Evs, shipx.Ev{T: simrt.Elapsed(), Kind: "timer", Arg: ts[0].Label})
			simrt.FireTimer(ts[0].ID)
		} else {
			deliver(first[2:])
		}
		switch {
		case other == "REPORT":
			// the write pump notices that the transport is gone (the socket is marked closed before the SHIP layer is told)
			w.W.Closed = true
			w.W.ClosedErr = errors.New("transport closed")
			w.reported = true
			w.L.Evs = append(w.L.Evs, shipx.Ev{T: simrt.Elapsed(), Kind: "transportdown"})
			simrt.Go("pump-write", func() { w.C.ReportConnectionError(errors.New("transport error")) })
		case strings.HasPrefix(other, "D:"):
			deliver(other[2:])
		case other == "APPROVE":
			w.P.Paired = true
			w.L.Evs = append(w.L.Evs, shipx.Ev{T: simrt.Elapsed(), Kind: "trust", Arg: "on"})
			simrt.Go("user-approve", func() { w.C.ApprovePendingHandshake() })
		case other == "CANCEL":
			simrt.Go("user-cancel", func() {
				w.C.AbortPendingHandshake()
				w.P.Paired = false
				w.L.Evs = append(w.L.Evs, shipx.Ev{T: simrt.Elapsed(), Kind: "trust", Arg: "off"})
			})
		case other == "CLOSE":
			w.L.Evs = append(w.L.Evs, shipx.Ev{T: simrt.Elapsed(), Kind: "userclose", Arg: "safe"})
			simrt.Go("user-close", func() { w.C.CloseConnection(true, 0, "user close") })
		}
		simrt.Quiesce()
		simrt.Unmark()
		for _, ev := range rest {
			// one message at a time: while the receive loop is busy (sleeping in the close exchange) the next frame waits in the socket
			for i := 0; w.busy && i < 5; i++ {
				simrt.RunFor(time.Second)
			}
			if w.W.Closed || w.busy {
				break // peers cannot deliver anything after the transport was closed
			}
			w.apply(ev, alpha)
		}
		simrt.RunFor(70 * time.Second)
		w.monitors(append(append([]string{}, hist...), first+"||"+other), 0, 0)
		simrt.Outcome(shipx.StateName(w.state()))
	}
}

// inputRaceScenarios: for both roles and every prefix of a cooperative handshake, the expiry of the timer that is
// armed at that point against the next message of the handshake, the peer's abort, its close announce, and the
// user's decisions.
func inputRaceScenarios(r *hx.Run) []hx.Scenario {
	var out []hx.Scenario
	pb := 1
	if r.Thorough() {
		pb = 2
	}
	seqs := map[bool][]string{
		true:  {"D:init", "D:helloReady", "D:protAnnounce", "D:protSelect", "D:pinNone", "D:accReq", "D:accA", "D:data1"},
		false: {"D:init", "D:helloReady", "D:protSelect", "D:pinNone", "D:accReq", "D:accA", "D:data1"},
	}
	for _, c := range []cfg{
		{server: true, trust: "paired", allow: true, alpha: "core"},
		{server: true, trust: "none", allow: true, alpha: "core", userOps: true},
		{server: false, trust: "paired", allow: true, alpha: "core"},
	} {
		seq := seqs[c.server]
		for k := 0; k < len(seq)-1; k++ {
			others := []string{seq[k], "D:closeAnnounce", "CLOSE"}
			if k >= 1 && k <= 2 {
				others = append(others, "D:helloAborted", "D:helloPending", "D:helloPendingProlong")
			}
			if c.trust == "none" && k == 2 {
				others = append(others, "APPROVE", "CANCEL")
			}
			if !r.Thorough() && c.trust == "none" && k > 2 {
				continue // without trust the handshake does not get further than the hello phase
			}
			focus := []string{"user", "reader", "setHandshakeTimer", "pump-write"}
			for _, o := range append(others, "REPORT") {
				name := fmt.Sprintf("inputrace:%s/after=%d/T0||%s", c.name(), k, o)
				out = append(out, hx.Scenario{Name: name, Body: inputRaceBody(c, seq[:k], "T0", o, seq[k:]), Bounds: simrt.B(pb, 0, 0),
					Cfg: simrt.Config{MaxSteps: 200000, BranchAfterMark: true, BranchOnly: focus}})
			}
			// the next message of the handshake against the loss of the transport noticed by the write pump, and against the user
			second := []string{"REPORT", "CLOSE"}
			if c.trust == "none" && k >= 1 && k <= 2 {
				second = append(second, "APPROVE", "CANCEL")
			}
			if c.server && c.trust == "paired" && k <= 2 {
				// the user withdraws the trust while the message that gets the hello phase going (or over) is being handled
				second = append(second, "CANCEL")
			}
			for _, o := range second {
				name := fmt.Sprintf("inputrace:%s/after=%d/%s||%s", c.name(), k, seq[k], o)
				out = append(out, hx.Scenario{Name: name, Body: inputRaceBody(c, seq[:k], seq[k], o, seq[k+1:]), Bounds: simrt.B(pb, 0, 0),
					Cfg: simrt.Config{MaxSteps: 200000, BranchAfterMark: true, BranchOnly: focus}})
			}
		}
	}
	return out
}

func sScenarios(r *hx.Run) []hx.Scenario {
	return append(userRaceScenarios(r), inputRaceScenarios(r)...)
}

func userRaceScenarios(r *hx.Run) []hx.Scenario {
	var out []hx.Scenario
	pb := 1
	if r.Thorough() {
		pb = 2
	}
	for _, ops := range [][]string{{"approve", "cancel"}, {"approve", "approve"}, {"cancel", "cancel"}, {"approve", "close"}, {"cancel", "close"}, {"approve", "cancel", "approve"}} {
		if len(ops) == 3 && !r.Thorough() {
			continue
		}
		out = append(out, hx.Scenario{Name: "userrace:" + strings.Join(ops, "+"), Body: userRaceBody(ops, true), Bounds: simrt.B(pb, 0, 0),
			Cfg: simrt.Config{MaxSteps: 200000, BranchAfterMark: true, BranchOnly: []string{"user"}}})
	}
	return out
}

func main() {
	r := hx.Init("")
	r.ID = *prop
	r.ReloadKnown()
	ms := models(r)
	withS := *prop == "C01" || *prop == "C04" || *prop == "C14"
	if r.Worker {
		if hx.WorkerMode() == "s" {
			hx.SWorker(sScenarios(r))
			return
		}
		hx.GWorker(ms)
		return
	}
	if r.ReplayIn != "" && withS {
		var art struct {
			Replay struct {
				Scenario string `json:"scenario"`
			} `json:"replay"`
		}
		hx.ReadJSON(r.ReplayIn, &art)
		if art.Replay.Scenario != "" {
			hx.MaybeReplay(r, sScenarios(r))
		}
	}
	hx.GMaybeReplay(r, ms)
	sum := hx.GExploreAll(r, ms)
	// keep only the findings that belong to this property (every monitor runs in every search)
	for k := range sum.Found {
		keep := strings.HasPrefix(k, *prop+"|") || hx.KeptKey(k)
		if *prop == "C08" && strings.HasPrefix(k, "panic|") {
			keep = true
		}
		if !keep {
			delete(sum.Found, k)
		}
	}
	if *prop == "C08" {
		hx.GProbe(r, sum, ms, len(probes()), 400)
		for k := range sum.Found {
			if !(strings.HasPrefix(k, "C08|") || strings.HasPrefix(k, "panic|") || hx.KeptKey(k)) {
				delete(sum.Found, k)
			}
		}
	}
	viol := hx.GConfirm(sum, ms)
	cov := sum.Coverage()
	if withS {
		r.EnsureBudget(40 * time.Second)
		hx.SetWorkerMode("s")
		scens := sScenarios(r)
		ss := hx.ExploreAll(r, scens, false, 0)
		for k := range ss.Found {
			if !(strings.HasPrefix(k, *prop+"|") || hx.KeptKey(k)) {
				delete(ss.Found, k)
			}
		}
		viol = append(viol, hx.ConfirmViolations(ss, scens)...)
		sc := ss.Coverage()
		cov["user_race_scenarios"] = len(scens)
		cov["user_race_executions"] = sc["executions"]
		cov["user_race_completed_bound"] = sc["completed_deviation_bound"]
		cov["exhaustive"] = cov["exhaustive"].(bool) && sc["exhaustive"].(bool)
	}
	if *prop == "C08" {
		cov["probe_inputs"] = len(probes())
		cov["probe_states"] = len(sum.Reps)
		cov["probe_runs"] = sum.Probes
	}
	cov["configurations"] = len(ms)
	r.Finish(hx.Result{Level: "model_checking", Coverage: cov,
		Assumptions: []string{"transitions are handler-atomic (one stimulus run to quiescence under the default schedule); concurrent stimuli are covered by the schedule explorations of C03/C14",
			"timers fire in deadline order; the canonical state key is a reflection snapshot of every ShipConnection field plus armed timers, live threads and the monitors' ghost variables",
			"the message alphabet holds one representative per branch of the handlers"},
		Violations: viol})
}
