package main

import (
	"encoding/json"
	"fmt"
	"strings"

	"github.com/enbility/ship-go/zzverif/shipx"
)

// probes: systematic, finite set of malformed inputs (C08). They are delivered in a representative of
// every distinct handshake state but their successors are not expanded.

var probeCache []msg

func probes() []msg {
	if probeCache != nil {
		return probeCache
	}
	var out []msg
	add := func(id string, frame []byte) { out = append(out, msg{id: id, frame: frame, class: "probe"}) }
	valid := map[string][]byte{
		"helloReady":   shipx.Hello("ready", 60000, 0),
		"helloPending": shipx.Hello("pending", 60000, 0),
		"helloProlong": shipx.Hello("pending", -1, 1),
		"protAnnounce": shipx.Prot("announceMax", 1, 0, `["JSON-UTF8"]`),
		"protSelect":   shipx.Prot("select", 1, 0, `["JSON-UTF8"]`),
		"protError":    shipx.ProtError(2),
		"pinNone":      shipx.Pin("none"),
		"accReq":       shipx.AccessRequest(),
		"accA":         shipx.AccessMethods("A"),
		"closeAnn":     shipx.CloseMsg("announce"),
		"closeConf":    shipx.CloseMsg("confirm"),
		"data1":        shipx.Data(shipx.Datagram(1)),
	}
	var names []string
	for n := range valid {
		names = append(names, n)
	}
	sortStrings(names)
	repl := []string{`null`, `true`, `0`, `-1`, `1e99`, `18446744073709551616`, `""`, `"x"`, `[]`, `[ ]`, `{}`, `[[]]`, `[{}]`, `"` + strings.Repeat("y", 70000) + `"`,
		// numbers around the thresholds the protocol knows (1 s, 30 s, 60 s, 32 bit)
		`1`, `999`, `1000`, `1001`, `29999`, `30000`, `30001`, `59999`, `60001`, `4294967296`}
	for _, n := range names {
		f := valid[n]
		hdr, body := f[0], string(f[1:])
		// envelope mutations
		for _, h := range []byte{0, 1, 2, 3, 4, 255} {
			if h != hdr {
				add(fmt.Sprintf("%s/hdr=%d", n, h), append([]byte{h}, body...))
			}
		}
		for cut := 0; cut < len(f); cut++ {
			if cut < 6 || cut%5 == 0 || cut > len(f)-4 {
				add(fmt.Sprintf("%s/trunc=%d", n, cut), append([]byte(nil), f[:cut]...))
			}
		}
		add(n+"/trail00", append(append([]byte(nil), f...), 0))
		add(n+"/lead00", append([]byte{hdr, 0}, body...))
		// whitespace at token boundaries (produces "present but empty" lists after the textual transform)
		add(n+"/ws", append([]byte{hdr}, spaced(body)...))
		// structured mutations of every JSON node
		var tree any
		if err := json.Unmarshal([]byte(body), &tree); err != nil {
			continue
		}
		paths := nodePaths(tree, nil)
		for pi, p := range paths {
			for ri, rp := range repl {
				var rv any
				_ = json.Unmarshal([]byte(rp), &rv)
				m := mutate(tree, p, func(any) (any, bool) { return rawText(rp), true })
				b := []byte(render(m))
				_ = rv
				add(fmt.Sprintf("%s/n%d=r%d", n, pi, ri), append([]byte{hdr}, b...))
			}
			m := mutate(tree, p, func(any) (any, bool) { return nil, false })
			b := []byte(render(m))
			add(fmt.Sprintf("%s/n%d=del", n, pi), append([]byte{hdr}, b...))
		}
	}
	// all byte strings of length <= 3 over a small symbol alphabet (length 4 in the second half of thorough runs)
	syms := []byte{0, 1, 2, 3, '{', '}', '[', ']', '"', ':', ',', ' ', 'a', '1'}
	var rec func(cur []byte, left int)
	rec = func(cur []byte, left int) {
		add(fmt.Sprintf("bytes/%x", cur), append([]byte(nil), cur...))
		if left == 0 {
			return
		}
		for _, s := range syms {
			rec(append(cur, s), left-1)
		}
	}
	rec(nil, 3)
	probeCache = out
	return out
}

func sortStrings(a []string) {
	for i := range a {
		for j := i + 1; j < len(a); j++ {
			if a[j] < a[i] {
				a[i], a[j] = a[j], a[i]
			}
		}
	}
}

func spaced(s string) string {
	var b strings.Builder
	inStr := false
	for i := 0; i < len(s); i++ {
		c := s[i]
		if c == '"' && (i == 0 || s[i-1] != '\\') {
			inStr = !inStr
		}
		if !inStr && (c == '[' || c == '{' || c == ',' || c == ':') {
			b.WriteByte(c)
			b.WriteByte(' ')
			continue
		}
		if !inStr && (c == ']' || c == '}') {
			b.WriteByte(' ')
		}
		b.WriteByte(c)
	}
	return b.String()
}

type pathElem struct {
	key string
	idx int
}

func nodePaths(t any, cur []pathElem) [][]pathElem {
	var out [][]pathElem
	if len(cur) > 0 {
		out = append(out, append([]pathElem(nil), cur...))
	}
	switch v := t.(type) {
	case map[string]any:
		var ks []string
		for k := range v {
			ks = append(ks, k)
		}
		sortStrings(ks)
		for _, k := range ks {
			out = append(out, nodePaths(v[k], append(cur, pathElem{key: k, idx: -1}))...)
		}
	case []any:
		for i, e := range v {
			out = append(out, nodePaths(e, append(cur, pathElem{idx: i}))...)
		}
	}
	return out
}

// mutate returns a deep copy of t with the node at path replaced (keep=true) or deleted (keep=false).
func mutate(t any, path []pathElem, f func(any) (any, bool)) any {
	if len(path) == 0 {
		nv, _ := f(t)
		return nv
	}
	p := path[0]
	switch v := t.(type) {
	case map[string]any:
		out := map[string]any{}
		for k, e := range v {
			if k == p.key && p.idx < 0 {
				if len(path) == 1 {
					if nv, keep := f(e); keep {
						out[k] = nv
					}
					continue
				}
				out[k] = mutate(e, path[1:], f)
				continue
			}
			out[k] = e
		}
		return out
	case []any:
		var out []any
		for i, e := range v {
			if i == p.idx {
				if len(path) == 1 {
					if nv, keep := f(e); keep {
						out = append(out, nv)
					}
					continue
				}
				out = append(out, mutate(e, path[1:], f))
				continue
			}
			out = append(out, e)
		}
		if out == nil {
			out = []any{}
		}
		return out
	}
	return t
}



type rawText string

// render serialises a generic JSON tree, inserting rawText nodes verbatim (so that "[ ]" stays "[ ]").
func render(t any) string {
	switch v := t.(type) {
	case rawText:
		return string(v)
	case map[string]any:
		var ks []string
		for k := range v {
			ks = append(ks, k)
		}
		sortStrings(ks)
		var parts []string
		for _, k := range ks {
			kb, _ := json.Marshal(k)
			parts = append(parts, string(kb)+":"+render(v[k]))
		}
		return "{" + strings.Join(parts, ",") + "}"
	case []any:
		var parts []string
		for _, e := range v {
			parts = append(parts, render(e))
		}
		return "[" + strings.Join(parts, ",") + "]"
	}
	b, _ := json.Marshal(t)
	return string(b)
}
