package main

import (
	"fmt"
	"reflect"
	"sort"
	"strings"
	"time"

	"github.com/enbility/ship-go/zzverif/fakehttp"
	"github.com/enbility/ship-go/zzverif/fakews"
	"github.com/enbility/ship-go/zzverif/hubx"
	"github.com/enbility/ship-go/zzverif/hx"
	"github.com/enbility/ship-go/zzverif/simrt"
)

// C15: every hub operation is invariant under the spelling of the SKI (metamorphic enumeration).

var c15States = []string{"none", "visible", "pending-inbound", "completed", "dial-scheduled"}
var c15Ops = []string{"register", "unregister", "disconnect", "cancel", "detail", "service"}
var c15Spellings = []string{"canon", "upper", "mixed", "spaces", "dashes", "padded", "upper-dashes"}

func spell(ski, how string) string {
	switch how {
	case "upper":
		return strings.ToUpper(ski)
	case "mixed":
		b := []byte(ski)
		for i := range b {
			if i%2 == 0 {
				b[i] = strings.ToUpper(string(b[i]))[0]
			}
		}
		return string(b)
	case "spaces", "dashes", "upper-dashes":
		sep := " "
		if how != "spaces" {
			sep = "-"
		}
		var parts []string
		for i := 0; i < len(ski); i += 2 {
			parts = append(parts, ski[i:i+2])
		}
		s := strings.Join(parts, sep)
		if how == "upper-dashes" {
			s = strings.ToUpper(s)
		}
		return s
	case "padded":
		return " " + ski + " "
	}
	return ski
}

func normSKI(s string) string {
	s = strings.ToLower(s)
	s = strings.ReplaceAll(s, " ", "")
	return strings.ReplaceAll(s, "-", "")
}

func c15Apply(a *hubx.Node, op, ski string, obs *[]string) {
	switch op {
	case "register":
		a.Hub.RegisterRemoteSKI(ski)
	case "unregister":
		a.Hub.UnregisterRemoteSKI(ski)
	case "disconnect":
		a.Hub.DisconnectSKI(ski, "user")
	case "cancel":
		a.Hub.CancelPairingWithSKI(ski)
	case "detail":
		d := a.Hub.PairingDetailForSki(ski)
		*obs = append(*obs, fmt.Sprintf("detail=%d,%v", uint(d.State()), d.Error()))
	case "service":
		s := a.Hub.ServiceForSKI(ski)
		same := s == a.Hub.ServiceForSKI(normSKI(ski))
		*obs = append(*obs, fmt.Sprintf("service=%s,same=%v,trusted=%v", s.SKI(), same, s.Trusted()))
	}
}

// c15Run: args = state, then pairs (op, spelling)...
func c15Run(args []string) (string, [][2]string) {
	var obs []string
	x := simrt.Run(simrt.Config{MaxSteps: 300000}, nil, func() {
		simrt.ClearTraceHooks()
		fakews.SetLatency(time.Millisecond)
		a := hubx.NewNode("A", 0, 4711)
		b := hubx.NewNode("B", 1, 4712)
		// "<state>/fast": the operations follow each other within 10 ms (inside the 500 ms close and notification delays)
		state, fast := strings.CutSuffix(args[0], "/fast")
		switch state {
		case "none":
			a.Start()
		case "visible":
			a.Start()
			b.Start()
		case "pending-inbound":
			b.Hub.RegisterRemoteSKI(a.SKI)
			a.Start()
			b.Start()
		case "completed":
			a.Hub.RegisterRemoteSKI(b.SKI)
			b.Hub.RegisterRemoteSKI(a.SKI)
			a.Start()
			b.Start()
		case "dial-scheduled":
			// the first dial fails: the next attempt is delayed by at least 3 s and still pending at the time of the operation
			fakews.SetDialFault(func(port string, n int) bool { return n == 1 })
			a.Hub.RegisterRemoteSKI(b.SKI)
			b.Hub.RegisterRemoteSKI(a.SKI)
			a.Start()
			b.Start()
		}
		simrt.RunFor(1500 * time.Millisecond)
		mark := len(a.App.Log)
		markB := len(b.App.Log)
		for i := 1; i+1 < len(args); i += 2 {
			c15Apply(a, args[i], spell(b.SKI, args[i+1]), &obs)
			if fast {
				simrt.RunFor(10 * time.Millisecond)
			} else {
				simrt.RunFor(time.Second)
			}
		}
		simrt.RunFor(30 * time.Second)
		// observation: what A's application saw (SKIs normalised), what B saw, sockets, trust, dials, counters
		for _, e := range a.App.Log[mark:] {
			if e.Kind == "visible" {
				continue
			}
			obs = append(obs, "A:"+e.Kind+"("+normSKI(e.SKI)[:6]+","+e.Arg+")")
		}
		for _, e := range b.App.Log[markB:] {
			if e.Kind == "visible" {
				continue
			}
			obs = append(obs, "B:"+e.Kind+"("+e.Arg+")")
		}
		open := 0
		for _, l := range fakews.Links() {
			if !l.Client.IsClosed() && !l.Server.IsClosed() {
				open++
			}
		}
		obs = append(obs, fmt.Sprintf("open=%d links=%d", open, len(fakews.Links())))
		obs = append(obs, fmt.Sprintf("paired=%v detail=%d", a.Hub.IsRemoteServiceForSKIPaired(b.SKI), uint(a.Hub.PairingDetailForSki(b.SKI).State())))
		nd := 0
		for _, d := range fakehttp.Dials() {
			if d.From == a.SKI {
				nd++
			}
		}
		obs = append(obs, fmt.Sprintf("dialsByA=%d", nd))
		// internal maps must only ever be keyed by the canonical SKI
		for _, fld := range []string{"connections", "connectionAttemptCounter", "connectionAttemptRunning", "remoteServices"} {
			if f, ok := hx.Field(a.Hub, fld); ok && f.Kind() == reflect.Map {
				var ks []string
				for _, k := range f.MapKeys() {
					ks = append(ks, k.String())
				}
				sort.Strings(ks)
				for _, k := range ks {
					if k != normSKI(k) {
						obs = append(obs, "noncanonical-key:"+fld)
					}
				}
				obs = append(obs, fmt.Sprintf("%s=%d", fld, len(ks)))
			}
		}
	})
	var fails [][2]string
	if x.Panic != nil {
		fails = append(fails, [2]string{"panic|" + simrt.PanicKey(x.Panic), x.Panic.Value + "\n" + x.Panic.Stack})
	}
	return strings.Join(obs, " "), fails
}

type c15case struct {
	state string
	ops   []string
	sp    []string
}

func (c c15case) args(canon bool) []string {
	out := []string{c.state}
	for i, o := range c.ops {
		s := c.sp[i]
		if canon {
			s = "canon"
		}
		out = append(out, o, s)
	}
	return out
}

func c15Cases(r *hx.Run) []c15case {
	var out []c15case
	for _, st := range c15States {
		for _, op := range c15Ops {
			for _, sp := range c15Spellings[1:] {
				out = append(out, c15case{st, []string{op}, []string{sp}})
			}
		}
		// two operations with different spellings (register with one spelling, act with another)
		combos := [][2]string{{"canon", "upper"}, {"upper", "canon"}, {"dashes", "mixed"}}
		if r.Thorough() {
			combos = append(combos, [2]string{"spaces", "upper-dashes"}, [2]string{"padded", "canon"}, [2]string{"canon", "spaces"})
		}
		for _, o1 := range c15Ops {
			for _, o2 := range c15Ops {
				query := o2 == "detail" || o2 == "service"
				if !r.Thorough() && !(o1 == "register" || o2 == "register" || o1 == "unregister" || query) {
					continue
				}
				for _, cb := range combos {
					out = append(out, c15case{st, []string{o1, o2}, []string{cb[0], cb[1]}})
				}
				// the second operation hits the window in which the first is still taking effect
				if query || r.Thorough() {
					out = append(out, c15case{st + "/fast", []string{o1, o2}, []string{"canon", "upper-dashes"}})
				}
			}
		}
	}
	return out
}

func c15Main(r *hx.Run) {
	cases := c15Cases(r)
	if r.Worker {
		hx.EnumWorker(c15Run)
		return
	}
	// task list: canonical run per distinct (state, ops) + one run per case
	canonIdx := map[string]int{}
	var tasks [][]string
	caseIdx := make([]int, len(cases))
	for i, c := range cases {
		ck := strings.Join(c.args(true), ",")
		if _, ok := canonIdx[ck]; !ok {
			canonIdx[ck] = len(tasks)
			tasks = append(tasks, c.args(true))
		}
		caseIdx[i] = len(tasks)
		tasks = append(tasks, c.args(false))
	}
	res := hx.EnumAll(r, tasks)
	var viol []hx.Violation
	seenKey := map[string]bool{}
	distinct := map[string]bool{}
	var samples []any
	for i, c := range cases {
		canon := res[canonIdx[strings.Join(c.args(true), ",")]]
		got := res[caseIdx[i]]
		distinct[canon.Obs] = true
		if i%97 == 0 {
			samples = append(samples, strings.Join(c.args(false), " ")+" => "+got.Obs)
		}
		for _, f := range got.Fails {
			p := strings.SplitN(f, "\x00", 2)
			if !seenKey[p[0]] {
				seenKey[p[0]] = true
				viol = append(viol, hx.Violation{Key: p[0], Msg: p[1], Replay: map[string]any{"args": c.args(false)}})
			}
		}
		if got.Obs != canon.Obs {
			// key: the operation whose re-spelled argument changes the behaviour, and the hub state
			key := fmt.Sprintf("C15|%s|%s", strings.Join(c.ops, "+"), c.state)
			if !seenKey[key] {
				seenKey[key] = true
				viol = append(viol, hx.Violation{Key: key,
					Msg:    fmt.Sprintf("state %s, operations %v with spellings %v behave differently from the canonical spelling:\n  canonical: %s\n  variant:   %s", c.state, c.ops, c.sp, canon.Obs, got.Obs),
					Replay: map[string]any{"args": c.args(false), "canonical": c.args(true)}})
			}
		}
	}
	r.Finish(hx.Result{Level: "model_checking", Coverage: map[string]any{
		"states": len(tasks), "transitions": len(tasks), "traces_validated_against_impl": len(tasks),
		"evaluations": len(tasks), "distinct_nontrivial": len(distinct), "cases": len(cases), "canonical_runs": len(canonIdx),
		"rule":    "hub state x operation sequence x spelling; every case is one complete deterministic two-hub execution (default schedule, 30 s virtual horizon) compared with the execution of the same operations using the canonical spelling; distinct_nontrivial = distinct canonical observations",
		"samples": samples, "exhaustive": true},
		Assumptions: []string{"default schedule only (the property quantifies over inputs and hub states, not schedules)", "observations: application callbacks of both hubs (SKI arguments normalised), open sockets, trust, pairing detail, dial count, sizes and key spelling of the hub's internal maps"},
		Violations:  viol})
}
