package main

import (
	"fmt"
	"os"
	"net"
	"strings"
	"time"

	"github.com/enbility/ship-go/zzverif/fakews"
	"github.com/enbility/ship-go/zzverif/fakezeroconf"
	"github.com/enbility/ship-go/zzverif/hubx"
	"github.com/enbility/ship-go/zzverif/hx"
	"github.com/enbility/ship-go/zzverif/simrt"
)

// C09 (hub half): the SHIP ID the application stored for a SKI reaches every new connection, in both roles
// (accepting and dialling), and an unknown one is reported once, before the remote device is set up.
// args: who dials (A|B|both), stored id at A for B ("", right, wrong), stored id at B for A, reconnect (0|1)
func c09Run(args []string) (string, [][2]string) {
	var fails [][2]string
	fail := func(key, f string, a ...any) { fails = append(fails, [2]string{key, fmt.Sprintf(f, a...) + fmt.Sprint(" ", args)}) }
	obs := ""
	x := simrt.Run(simrt.Config{MaxSteps: 400000}, nil, func() {
		simrt.ClearTraceHooks()
		fakews.SetLatency(time.Millisecond)
		a := hubx.NewNode("A", 0, 4711)
		b := hubx.NewNode("B", 1, 4712)
		idOf := func(kind string, peer *hubx.Node) string {
			switch kind {
			case "right":
				return peer.Local.ShipID()
			case "wrong":
				return "some-other-device"
			}
			return ""
		}
		switch args[0] {
		case "A":
			a.Hub.RegisterRemoteSKI(b.SKI)
			b.Hub.SetAutoAccept(true)
		case "B":
			b.Hub.RegisterRemoteSKI(a.SKI)
			a.Hub.SetAutoAccept(true)
		case "B-then-A":
			// B dials A, which does not trust B yet: the request is pending when the link breaks, so the first connection ends
			// before its handshake completed; afterwards A's user registers B and B comes back
			b.Hub.RegisterRemoteSKI(a.SKI)
		default:
			a.Hub.RegisterRemoteSKI(b.SKI)
			b.Hub.RegisterRemoteSKI(a.SKI)
		}
		if id := idOf(args[1], b); id != "" {
			a.Hub.ServiceForSKI(b.SKI).SetShipID(id)
		}
		if id := idOf(args[2], a); id != "" {
			b.Hub.ServiceForSKI(a.SKI).SetShipID(id)
		}
		// bound the retry loop of a refused peer
		maxLinks := 3
		if args[0] == "B-then-A" {
			maxLinks = 6
		}
		fakews.SetDialFault(func(string, int) bool { return len(fakews.Links()) >= maxLinks })
		a.Start()
		b.Start()
		simrt.RunFor(4 * time.Second)
		if args[0] == "B-then-A" {
			for _, l := range fakews.Links() {
				if !l.Client.IsClosed() {
					l.Client.CutLink()
				}
			}
			simrt.RunFor(2 * time.Second)
			a.Hub.RegisterRemoteSKI(b.SKI)
			simrt.RunFor(40 * time.Second)
		}
		if args[3] == "1" {
			a.Hub.DisconnectSKI(b.SKI, "again")
			simrt.RunFor(25 * time.Second)
		}
		for _, p := range []struct {
			n, peer *hubx.Node
			stored  string
		}{{a, b, args[1]}, {b, a, args[2]}} {
			setups := p.n.App.Count("setup", p.peer.SKI)
			ids := p.n.App.Count("shipid", p.peer.SKI)
			switch p.stored {
			case "wrong":
				if setups > 0 {
					fail("C09|hub|mismatch-accepted", "hub %s stored another SHIP ID for the peer but set up the remote device %d time(s)", p.n.Name, setups)
				}
			case "right":
				if ids > 0 {
					fail("C09|hub|report-although-known", "hub %s reported a SHIP ID although the application had stored it", p.n.Name)
				}
			}
			// order: for every connection, an id report precedes the setup; never two reports for one setup
			lastID := -1
			for i, e := range p.n.App.Log {
				if e.SKI != p.peer.SKI {
					continue
				}
				if e.Kind == "shipid" {
					if e.Arg != p.peer.Local.ShipID() {
						fail("C09|hub|wrong-id-reported", "hub %s reported SHIP ID %q, the peer's is %q", p.n.Name, e.Arg, p.peer.Local.ShipID())
					}
					if lastID >= 0 {
						fail("C09|hub|reported-twice", "hub %s reported the SHIP ID twice before one setup", p.n.Name)
					}
					lastID = i
				}
				if e.Kind == "setup" {
					if p.stored == "" && lastID < 0 {
						fail("C09|hub|not-reported-before-setup", "hub %s set up the remote device without having reported its unknown SHIP ID first", p.n.Name)
					}
					lastID = -1
				}
			}
		}
		obs = fmt.Sprintf("setupA=%d setupB=%d idsA=%d idsB=%d links=%d", a.App.Count("setup", b.SKI), b.App.Count("setup", a.SKI), a.App.Count("shipid", b.SKI), b.App.Count("shipid", a.SKI), len(fakews.Links()))
	})
	if x.Panic != nil {
		fails = append(fails, [2]string{"panic|" + simrt.PanicKey(x.Panic), x.Panic.Value + "\n" + x.Panic.Stack})
	}
	if os.Getenv("VERIF_DEBUG") != "" && args[0] == "B-then-A" {
		fmt.Fprintln(os.Stderr, "DEBUG", args, obs, "trunc", x.Truncated, "now", x.Now)
	}
	return obs, fails
}

// S part: the application stores the SHIP ID of a not yet known SKI while the hub meets that SKI for the first
// time on another goroutine (mDNS report, incoming connection). The stored ID must reach the connection.
func c09RaceBody(kind string) func() {
	return func() {
		simrt.ClearTraceHooks()
		fakews.SetLatency(time.Millisecond)
		a := hubx.NewNode("A", 0, 4711)
		b := hubx.NewNode("B", 1, 4712)
		const pinned = "some-other-device"
		b.Hub.RegisterRemoteSKI(a.SKI)
		// one connection attempt per side is enough to see whether the stored ID is honoured
		fakews.SetDialFault(func(string, int) bool { return len(fakews.Links()) >= 1 })
		a.Start()
		simrt.RunFor(10 * time.Millisecond)
		store := func() { a.Hub.ServiceForSKI(b.SKI).SetShipID(pinned) }
		simrt.Mark()
		switch kind {
		case "store-vs-mdns":
			// B becomes visible (first look-up of its SKI on A's mDNS report goroutine) while the application stores the ID
			simrt.Go("app", store)
			for _, e := range []string{"x"} {
				_ = e
				fakezeroconf.TheEther().Inject(&fakezeroconf.ServiceEntry{ServiceRecord: fakezeroconf.ServiceRecord{Instance: "svc-B"}, HostName: "b.local.", Port: 4712,
					AddrIPv4: []net.IP{net.IPv4(127, 0, 0, 1)}, Text: []string{"txtvers=1", "id=shipid-B", "path=/ship/", "ski=" + b.SKI, "register=false"}}, false)
			}
			simrt.RunFor(20 * time.Millisecond)
		case "store-vs-register":
			simrt.Go("app", store)
			simrt.Go("app2", func() { a.Hub.RegisterRemoteSKI(b.SKI) })
			simrt.RunFor(20 * time.Millisecond)
		case "store-vs-detail":
			simrt.Go("app", store)
			simrt.Go("app2", func() { a.Hub.PairingDetailForSki(b.SKI) })
			simrt.RunFor(20 * time.Millisecond)
		}
		simrt.Unmark()
		// now B really appears and connects; A accepts anybody, so only the stored SHIP ID stands in the way
		a.Hub.SetAutoAccept(true)
		b.Start()
		simrt.RunFor(4 * time.Second)
		stored := a.Hub.ServiceForSKI(b.SKI).ShipID()
		if stored != pinned {
			simrt.Fail("C09|hub|stored-id-lost", "the application stored SHIP ID %q for the SKI, the hub's record says %q (%s)", pinned, stored, kind)
		}
		if n := a.App.Count("setup", b.SKI); n > 0 {
			simrt.Fail("C09|hub|mismatch-accepted", "hub A set up the remote device %d time(s) although the application had stored another SHIP ID for its SKI before it connected (%s)", n, kind)
		}
		if n := a.App.Count("shipid", b.SKI); n > 0 {
			simrt.Fail("C09|hub|report-although-known", "hub A reported a SHIP ID for a SKI whose ID the application had stored (%s)", kind)
		}
		simrt.Outcome(fmt.Sprintf("stored=%s setups=%d links=%d", stored, a.App.Count("setup", b.SKI), len(fakews.Links())))
	}
}

func c09Scenarios(r *hx.Run) []hx.Scenario {
	var out []hx.Scenario
	pb := 1
	if r.Thorough() {
		pb = 2
	}
	for _, k := range []string{"store-vs-mdns", "store-vs-register", "store-vs-detail"} {
		out = append(out, hx.Scenario{Name: "c09:" + k, Body: c09RaceBody(k), Bounds: simrt.B(pb, 0, 0),
			Cfg: simrt.Config{MaxSteps: 400000, BranchAfterMark: true, BranchOnly: []string{"app", "eportMdnsEntries"}}})
	}
	return out
}

func c09Main(r *hx.Run) {
	if r.Worker {
		if hx.WorkerMode() == "s" {
			hx.SWorker(c09Scenarios(r))
			return
		}
		hx.EnumWorker(c09Run)
		return
	}
	if *debugScen >= 0 {
		sc := c09Scenarios(r)[*debugScen]
		x := simrt.Run(sc.Cfg, nil, sc.Body)
		fmt.Println("points", len(x.Points), "steps", x.Steps, "trunc", x.Truncated, "outcome", x.Outcome, x.Failures, x.Panic, "now", x.Now)
		for _, t := range x.Threads {
			if !t.Done {
				fmt.Printf("%+v\n", t)
			}
		}
		return
	}
	if r.ReplayIn != "" {
		var art struct {
			Replay struct {
				Scenario string `json:"scenario"`
			} `json:"replay"`
		}
		hx.ReadJSON(r.ReplayIn, &art)
		if art.Replay.Scenario != "" {
			hx.MaybeReplay(r, c09Scenarios(r))
		}
	}
	var tasks [][]string
	for _, who := range []string{"A", "B", "both", "B-then-A"} {
		for _, sa := range []string{"", "right", "wrong"} {
			for _, sb := range []string{"", "right", "wrong"} {
				for _, rc := range []string{"0", "1"} {
					tasks = append(tasks, []string{who, sa, sb, rc})
				}
			}
		}
	}
	res := hx.EnumAll(r, tasks)
	seen := map[string]bool{}
	distinct := map[string]bool{}
	var viol []hx.Violation
	var samples []any
	for i, rs := range res {
		distinct[rs.Obs] = true
		if i%9 == 0 {
			samples = append(samples, fmt.Sprint(tasks[i], " => ", rs.Obs))
		}
		for _, f := range rs.Fails {
			k, m := splitFail(f)
			if !seen[k] {
				seen[k] = true
				viol = append(viol, hx.Violation{Key: k, Msg: m, Replay: map[string]any{"args": tasks[i]}})
			}
		}
	}
	// S part
	r.EnsureBudget(60 * time.Second)
	hx.SetWorkerMode("s")
	scens := c09Scenarios(r)
	ss := hx.ExploreAll(r, scens, false, 0)
	for k := range ss.Found {
		if !strings.HasPrefix(k, "C09|") && !strings.HasPrefix(k, "panic|") && !hx.KeptKey(k) {
			delete(ss.Found, k)
		}
	}
	viol = append(viol, hx.ConfirmViolations(ss, scens)...)
	sc := ss.Coverage()
	r.Finish(hx.Result{Level: "model_checking", Coverage: map[string]any{"states": len(tasks), "transitions": len(tasks), "traces_validated_against_impl": len(tasks),
		"evaluations": len(tasks), "distinct_nontrivial": len(distinct),
		"concurrent_store_scenarios": len(scens), "concurrent_store_executions": sc["executions"], "concurrent_store_completed_bound": sc["completed_deviation_bound"], "concurrent_store_outcomes": sc["outcomes"],
		"rule":    "hub half: who dials {A, B, both} x SHIP ID stored at A for B {none, right, wrong} x stored at B for A x reconnect after a disconnect; one complete two-hub execution each (default schedule)",
		"samples": samples, "exhaustive": sc["exhaustive"]},
		Assumptions: []string{"two complete ship-go nodes over the fake network; default schedule for the enumeration; preemption-bounded exploration of the application storing a SHIP ID while the hub meets the SKI for the first time (mDNS report / incoming connection / registration)"}, Violations: viol})
}

func splitFail(f string) (string, string) {
	for i := 0; i < len(f); i++ {
		if f[i] == 0 {
			return f[:i], f[i+1:]
		}
	}
	return f, ""
}
