// hubs: complete ship-go nodes (hub + ship + ws + mdns) over the fake network and zeroconf ether.
// Serves C05, C10, C11, C15, C18 (schedule exploration and scenario enumeration on real hubs).
package main

import (
	"errors"
	"github.com/enbility/ship-go/model"
	"flag"
	"fmt"
	"reflect"
	"sort"
	"strings"
	"time"

	"github.com/enbility/ship-go/api"
	"github.com/enbility/ship-go/zzverif/fakehttp"
	"github.com/enbility/ship-go/zzverif/fakews"
	"github.com/enbility/ship-go/zzverif/hubx"
	"github.com/enbility/ship-go/zzverif/hx"
	"github.com/enbility/ship-go/zzverif/simrt"
)

var prop = flag.String("prop", "C18", "C05|C10|C11|C15|C18")
var debugHist = flag.String("debughist", "", "")
var debugScen = flag.Int("debugscen", -1, "print the focus points of one scenario")
var part = flag.String("part", "", "C11: raw = the foreign-peer state search")
var only = flag.String("only", "", "development aid: explore only the scenarios whose name contains this")

// ---- shared helpers ----

type closeRec struct {
	hub  any
	conn any
	done bool
}

// closeMonitor counts Hub.HandleConnectionClosed calls per (hub, connection) via the entry trace hook.
type closeMonitor struct {
	calls map[[2]any]int
	order [][2]any
}

func installCloseMonitor() *closeMonitor {
	m := &closeMonitor{calls: map[[2]any]int{}}
	simrt.OnTrace(func(name string, args []any) {
		if name == "hub.(*Hub).HandleConnectionClosed" && len(args) >= 2 {
			k := [2]any{args[0], args[1]}
			if m.calls[k] == 0 {
				m.order = append(m.order, k)
			}
			m.calls[k]++
		}
	})
	return m
}

// registry returns the hub's SKI -> connection map (read-only reflection view).
func registry(n *hubx.Node) map[string]any {
	out := map[string]any{}
	f, ok := hx.Field(n.Hub, "connections")
	if !ok || f.Kind() != reflect.Map {
		return out
	}
	it := f.MapRange()
	for it.Next() {
		v := it.Value()
		if v.Kind() == reflect.Interface && !v.IsNil() {
			out[it.Key().String()] = v.Elem().Interface()
		}
	}
	return out
}

func completed(c any) bool {
	sc, ok := c.(api.ShipConnectionInterface)
	if !ok {
		return false
	}
	st, _ := sc.ShipHandshakeState()
	return uint(st) == 38
}

func openLinks() int {
	n := 0
	for _, l := range fakews.Links() {
		if !l.Client.IsClosed() && !l.Server.IsClosed() {
			n++
		}
	}
	return n
}

func pairingSeq(a *hubx.App, ski string) []hubx.Ev {
	var out []hubx.Ev
	for _, e := range a.Log {
		if e.Kind == "pairing" && e.SKI == ski {
			out = append(out, e)
		}
	}
	return out
}

// ---- C18: pairing notifications end with the current state, never older after newer ----

type c18cfg struct {
	name      string
	bTrustsA  bool
	bWaits    bool
	aCancels  bool
	bAuto     bool
	cutAfter  time.Duration
	cancelAt  time.Duration
	unregAt   time.Duration
	cutFirst  bool // the link breaks right before the user cancels: the abort message cannot be written
	bApproves bool // B's user approves at the moment A's user cancels
	reReg     bool // A's user registers B once more at the moment the established connection ends
	regAgainAt time.Duration // both users register the peer (again) at this time, when the connection is long established
	otherAt   time.Duration // A's user registers a third, absent service at this time (notifications of one SKI must not affect another's)
}

func c18Body(c c18cfg) func() {
	return func() {
		simrt.ClearTraceHooks()
		fakews.SetLatency(time.Millisecond)
		a := hubx.NewNode("A", 0, 4711)
		b := hubx.NewNode("B", 1, 4712)
		b.App.AllowWaiting = c.bWaits
		if c.bAuto {
			b.Hub.SetAutoAccept(true)
		}
		a.Hub.RegisterRemoteSKI(b.SKI)
		if c.bTrustsA {
			b.Hub.RegisterRemoteSKI(a.SKI)
		}
		// at most two connection attempts succeed at the transport level (bounds the retry loop of a denied peer)
		fakews.SetDialFault(func(string, int) bool { return len(fakews.Links()) >= 2 })
		a.Start()
		b.Start()
		// the peer's socket goes away (the local read pump then reports the end of the connection on its own thread)
		cutter := func() {
			for _, l := range fakews.Links() {
				_ = l.Server.Close()
			}
		}
		if c.otherAt > 0 {
			simrt.RunFor(c.otherAt)
			a.Hub.RegisterRemoteSKI(hubx.CertSKI(2))
		}
		if c.aCancels {
			at := c.cancelAt
			if at == 0 {
				at = 2 * time.Second
			}
			simrt.RunFor(at)
			switch {
			case c.cutFirst:
				// the link dies at the moment the user cancels: the transport may already be closed when the abort is written
				simrt.Mark()
				simrt.Go("userA", func() { a.Hub.CancelPairingWithSKI(b.SKI) })
				simrt.Go("cutter", cutter)
				simrt.RunFor(20 * time.Millisecond)
				simrt.Unmark()
			case c.bApproves:
				simrt.Mark()
				simrt.Go("userB", func() { b.Hub.RegisterRemoteSKI(a.SKI) })
				simrt.Go("userA", func() { a.Hub.CancelPairingWithSKI(b.SKI) })
				simrt.RunFor(20 * time.Millisecond)
				simrt.Unmark()
			default:
				a.Hub.CancelPairingWithSKI(b.SKI)
			}
		}
		if c.reReg {
			simrt.RunFor(2 * time.Second)
			simrt.Mark()
			simrt.Go("userA", func() { a.Hub.RegisterRemoteSKI(b.SKI) })
			simrt.Go("cutter", cutter)
			simrt.RunFor(20 * time.Millisecond)
			simrt.Unmark()
		}
		if c.regAgainAt > 0 {
			// registering a service whose connection is established (to persist a pairing made through auto accept, or
			// simply once more) changes nothing the hub reports, so it must not leave another state as the last notification
			simrt.RunFor(c.regAgainAt)
			b.Hub.RegisterRemoteSKI(a.SKI)
			simrt.RunFor(10 * time.Millisecond)
			a.Hub.RegisterRemoteSKI(b.SKI)
		}
		if c.unregAt > 0 {
			simrt.RunFor(c.unregAt)
			if c.cutFirst {
				// the connection ends on its own at the moment the user unregisters the peer
				simrt.Mark()
				simrt.Go("userA", func() { a.Hub.UnregisterRemoteSKI(b.SKI) })
				simrt.Go("cutter", cutter)
				simrt.RunFor(20 * time.Millisecond)
				simrt.Unmark()
			} else {
				a.Hub.UnregisterRemoteSKI(b.SKI)
			}
		}
		if c.cutAfter > 0 {
			simrt.RunFor(c.cutAfter)
			for _, l := range fakews.Links() {
				l.Client.CutLink()
			}
		}
		simrt.RunFor(8 * time.Second)
		for _, p := range []struct{ n, peer *hubx.Node }{{a, b}, {b, a}} {
			seq := pairingSeq(p.n.App, p.peer.SKI)
			if len(seq) == 0 {
				// never told anything: fine only if there is nothing to tell
				if cur := p.n.Hub.PairingDetailForSki(p.peer.SKI); uint(cur.State()) != 0 {
					simrt.Fail("C18|last-notification-stale", "hub %s: PairingDetailForSki reports %d but the application never got a pairing notification for that service", p.n.Name, uint(cur.State()))
				}
				continue
			}
			// monotone: creation order = spawn order of the notification goroutines (synchronous calls count at call time)
			stamp := func(e hubx.Ev) float64 {
				if strings.Contains(e.TName, "HandleShipHandshakeStateUpdate") {
					return float64(e.Tid)
				}
				// MaxTid threads existed (ids 0..MaxTid-1) when the synchronous notification was made
				return float64(e.MaxTid) - 0.5
			}
			for i := 1; i < len(seq); i++ {
				if stamp(seq[i]) < stamp(seq[i-1]) && seq[i].Arg != seq[i-1].Arg {
					var det []string
					for _, e := range seq {
						det = append(det, fmt.Sprintf("%s(by T%d %s, threads so far %d)", e.Arg, e.Tid, e.TName, e.MaxTid))
					}
					simrt.Fail("C18|older-after-newer", "hub %s: pairing state %s (created earlier) was delivered after the newer state %s; delivered sequence %v", p.n.Name, seq[i].Arg, seq[i-1].Arg, det)
					break
				}
			}
			cur := p.n.Hub.PairingDetailForSki(p.peer.SKI)
			if last := seq[len(seq)-1]; last.Arg != fmt.Sprint(uint(cur.State())) {
				simrt.Fail("C18|last-notification-stale", "hub %s: the last pairing notification says state %s but PairingDetailForSki reports %d; delivered sequence %v", p.n.Name, last.Arg, uint(cur.State()), args(seq))
			}
		}
		simrt.Outcome(fmt.Sprintf("A:%v B:%v", args(pairingSeq(a.App, b.SKI)), args(pairingSeq(b.App, a.SKI))))
	}
}

func args(seq []hubx.Ev) []string {
	var out []string
	for _, e := range seq {
		out = append(out, e.Arg)
	}
	return out
}

// c18ReportersBody: two connections of one SKI (the two halves of a double connection, or an ending connection and its
// successor) report handshake states to the hub from their own goroutines at the same time. The hub is real, the
// reports are made directly (the narrowest seam that reaches the bookkeeping of the notifications).
func c18ReportersBody(sx, sy model.ShipMessageExchangeState, ex, ey bool) func() {
	return func() {
		simrt.ClearTraceHooks()
		a := hubx.NewNode("A", 0, 4711)
		b := hubx.NewNode("B", 1, 4712) // never started: only its SKI is used
		a.Hub.RegisterRemoteSKI(b.SKI)
		a.Start()
		simrt.RunFor(10 * time.Millisecond)
		mk := func(s model.ShipMessageExchangeState, withErr bool) model.ShipState {
			st := model.ShipState{State: s}
			if withErr {
				st.Error = errors.New("handshake error")
			}
			return st
		}
		simrt.Mark()
		simrt.Go("reporter-x", func() { a.Hub.HandleShipHandshakeStateUpdate(b.SKI, mk(sx, ex)) })
		simrt.Go("reporter-y", func() { a.Hub.HandleShipHandshakeStateUpdate(b.SKI, mk(sy, ey)) })
		simrt.RunFor(3 * time.Second)
		seq := pairingSeq(a.App, b.SKI)
		cur := a.Hub.PairingDetailForSki(b.SKI)
		if len(seq) == 0 {
			simrt.Fail("C18|never-notified", "two state reports, no pairing notification at all")
		} else if last := seq[len(seq)-1]; last.Arg != fmt.Sprint(uint(cur.State())) {
			simrt.Fail("C18|last-notification-stale", "two connections of one SKI reported %d and %d at the same time: the last pairing notification says state %s but PairingDetailForSki reports %d; delivered sequence %v", sx, sy, last.Arg, uint(cur.State()), args(seq))
		}
		simrt.Outcome(fmt.Sprintf("%v", args(seq)))
	}
}

func c18ReporterScenarios(r *hx.Run) []hx.Scenario {
	type rep struct {
		s model.ShipMessageExchangeState
		e bool
	}
	reps := []rep{{model.SmeHelloStatePendingListen, false}, {model.SmeHelloStateOk, false}, {model.SmeStateError, true}, {model.SmeStateComplete, false}, {model.SmeHelloStateRemoteAbortDone, false}}
	pb := 2
	if r.Thorough() {
		pb = 3
	}
	var out []hx.Scenario
	for i, x := range reps {
		for j, y := range reps {
			if i >= j {
				continue
			}
			out = append(out, hx.Scenario{Name: fmt.Sprintf("c18:reporters:%d+%d", x.s, y.s), Body: c18ReportersBody(x.s, y.s, x.e, y.e), Bounds: simrt.B(pb, 0, 0),
				Cfg: simrt.Config{MaxSteps: 100000, BranchAfterMark: true, BranchOnly: []string{"reporter", "HandleShipHandshakeStateUpdate"}}})
		}
	}
	return out
}

func c18Scenarios(r *hx.Run) []hx.Scenario {
	cfgs := []c18cfg{
		{name: "success", bTrustsA: true, bWaits: true},
		{name: "remote-denial", bTrustsA: false, bWaits: false},
		{name: "pending", bTrustsA: false, bWaits: true},
		{name: "local-cancel", bTrustsA: false, bWaits: true, aCancels: true},
		{name: "auto-accept", bAuto: true, bWaits: true},
		{name: "local-cancel-early", bTrustsA: false, bWaits: true, aCancels: true, cancelAt: 100 * time.Millisecond},
		{name: "unregister-early", bTrustsA: true, bWaits: true, unregAt: 100 * time.Millisecond},
		{name: "unregister-late", bTrustsA: true, bWaits: true, unregAt: 2 * time.Second},
		{name: "error-cut", bTrustsA: true, bWaits: true, cutAfter: 0},
		{name: "success+other-service", bTrustsA: true, bWaits: true, otherAt: 20 * time.Millisecond},
		{name: "pending+other-service", bTrustsA: false, bWaits: true, otherAt: 100 * time.Millisecond},
		{name: "local-cancel-broken-link", bTrustsA: false, bWaits: true, aCancels: true, cutFirst: true},
		{name: "local-cancel-vs-remote-approve", bTrustsA: false, bWaits: true, aCancels: true, bApproves: true},
		{name: "unregister-broken-link", bTrustsA: true, bWaits: true, unregAt: 2 * time.Second, cutFirst: true},
		{name: "unregister-pending-broken-link", bTrustsA: false, bWaits: true, unregAt: 2 * time.Second, cutFirst: true},
		{name: "success+register-again", bTrustsA: true, bWaits: true, regAgainAt: 2 * time.Second},
		{name: "auto-accept+register-afterwards", bAuto: true, bWaits: true, regAgainAt: 2 * time.Second},
		{name: "register-again-broken-link", bTrustsA: true, bWaits: true, reReg: true, cutFirst: true},
	}
	var out []hx.Scenario
	for _, c := range cfgs {
		// timely: all wake orders of notification goroutines whose delays end at the same instant (created in
		// the same burst), plus one preemption among them
		pb := 1
		if r.Thorough() {
			pb = 2
		}
		if c.cutFirst || c.bApproves {
			// the user operation races with the transport / the peer: branch among the user thread and the pumps
			out = append(out, hx.Scenario{Name: "c18:race:" + c.name, Body: c18Body(c), Bounds: simrt.B(pb, 0, 0),
				Cfg: simrt.Config{MaxSteps: 100000, BranchAfterMark: true, BranchOnly: []string{"user", "cutter"}}})
			continue
		}
		out = append(out, hx.Scenario{Name: "c18:timely:" + c.name, Body: c18Body(c), Bounds: simrt.B(pb, 0, 0),
			Cfg: simrt.Config{MaxSteps: 100000, BranchOnly: []string{"HandleShipHandshakeStateUpdate"}, BranchNoStart: true}})
		// arbitrary: up to 1 (quick) / 2 (thorough) notification goroutines wake up late by any amount
		tb := 1
		if r.Thorough() {
			tb = 2
		}
		out = append(out, hx.Scenario{Name: "c18:late-wakeups:" + c.name, Body: c18Body(c), Bounds: simrt.B(0, tb, 0),
			Cfg: simrt.Config{MaxSteps: 100000, ArbitraryQuiescent: true, BranchOnly: []string{"HandleShipHandshakeStateUpdate"}, BranchNoStart: true}})
	}
	out = append(out, c18ReporterScenarios(r)...)
	return out
}

// ---- C11: every connection end accounted for exactly once ----

var causes = []string{"disconnectA", "disconnectB", "unregisterA", "unregisterB", "cutLink", "peerEOF", "shutdownA", "shutdownB", "writeAfterPeerClose", "cancelA"}

func applyCause(c string, a, b *hubx.Node) {
	switch c {
	case "disconnectA":
		a.Hub.DisconnectSKI(b.SKI, "user")
	case "disconnectB":
		b.Hub.DisconnectSKI(a.SKI, "user")
	case "unregisterA":
		a.Hub.UnregisterRemoteSKI(b.SKI)
	case "unregisterB":
		b.Hub.UnregisterRemoteSKI(a.SKI)
	case "cancelA":
		a.Hub.CancelPairingWithSKI(b.SKI)
	case "cutLink":
		for _, l := range fakews.Links() {
			if !l.Client.IsClosed() {
				l.Client.CutLink()
			}
		}
	case "peerEOF":
		for _, l := range fakews.Links() {
			if !l.Server.IsClosed() {
				_ = l.Server.Close()
			}
		}
	case "shutdownA":
		a.Hub.Shutdown()
	case "shutdownB":
		b.Hub.Shutdown()
	case "writeAfterPeerClose":
		if w := a.App.Writers[b.SKI]; w != nil {
			w.WriteShipMessageWithPayload([]byte(`{"datagram":{"n":1}}`))
		}
	case "stalledDisconnectA", "stalledUnregisterA":
		// the path to the peer takes no data any more (the first SPINE frame hangs in the socket until the write deadline),
		// a second message fills the queue, then the user disconnects gracefully: the close announce waits for the queue
		for _, l := range fakews.Links() {
			for _, sock := range []*fakews.Conn{l.Client, l.Server} {
				sock.StallWrites = func(f fakews.Frame) bool { return f.Type == fakews.BinaryMessage && len(f.Data) > 0 && f.Data[0] == 2 }
			}
		}
		if w := a.App.Writers[b.SKI]; w != nil {
			simrt.Go("appA-writer1", func() { w.WriteShipMessageWithPayload([]byte(`{"datagram":{"n":1}}`)) })
			simrt.Go("appA-writer2", func() { w.WriteShipMessageWithPayload([]byte(`{"datagram":{"n":2}}`)) })
		}
		later := false
		simrt.NewTimer(20*time.Millisecond, 0, "user-thinks", func() { later = true })
		simrt.Block("user-thinks", func() bool { return later })
		if c == "stalledDisconnectA" {
			a.Hub.DisconnectSKI(b.SKI, "user")
		} else {
			a.Hub.UnregisterRemoteSKI(b.SKI)
		}
	}
}

func c11Body(c1, c2 string, midHandshake bool, reconnect bool) func() {
	return c11BodyT("mutual", c1, c2, midHandshake, reconnect)
}

// trust: mutual | pendingB (only A registered B: B holds an unanswered pairing request) | pendingA
func c11BodyT(trust, c1, c2 string, midHandshake bool, reconnect bool) func() {
	return func() {
		simrt.ClearTraceHooks()
		fakews.SetLatency(time.Millisecond)
		mon := installCloseMonitor()
		a := hubx.NewNode("A", 0, 4711)
		b := hubx.NewNode("B", 1, 4712)
		if trust != "pendingA" {
			a.Hub.RegisterRemoteSKI(b.SKI)
		}
		if trust != "pendingB" {
			b.Hub.RegisterRemoteSKI(a.SKI)
		}
		a.Start()
		b.Start()
		if !midHandshake {
			simrt.RunFor(3 * time.Second)
		} else {
			simrt.RunFor(4 * time.Millisecond) // a few message round trips into the handshake
		}
		if !reconnect {
			// keep the peers from reconnecting so that the accounting of this one connection is isolated
			fakews.SetDialFault(func(string, int) bool { return len(fakews.Links()) >= 1 })
		}
		done := 0
		simrt.Mark()
		simrt.Go("cause1", func() { applyCause(c1, a, b); done++ })
		if c2 != "" {
			simrt.Go("cause2", func() { applyCause(c2, a, b); done++ })
		}
		simrt.RunFor(40 * time.Second)
		// ---- oracle ----
		for _, k := range mon.order {
			if n := mon.calls[k]; n > 1 {
				simrt.Fail("C11|closed-reported-twice", "HandleConnectionClosed was called %d times for one connection (causes %s,%s)", n, c1, c2)
			}
		}
		for _, n := range []*hubx.Node{a, b} {
			peer := b
			if n == b {
				peer = a
			}
			// app sequence per SKI ends with setup iff a completed connection is registered
			last := n.App.Last(peer.SKI, "setup", "disconnected")
			reg := registry(n)
			c, has := reg[peer.SKI]
			live := has && completed(c)
			if last != nil {
				if (last.Kind == "setup") != live {
					simrt.Fail("C11|last-notification-inconsistent", "hub %s: last of {setup,disconnected} for the peer is %q but a completed connection is registered = %v (causes %s,%s)", n.Name, last.Kind, live, c1, c2)
				}
			} else if live {
				simrt.Fail("C11|registered-without-setup", "hub %s has a completed connection registered but never reported a setup", n.Name)
			}
			// disconnect notifications never outnumber connections that existed
			nd, ns := n.App.Count("disconnected", peer.SKI), 0
			for _, l := range fakews.Links() {
				_ = l
				ns++
			}
			if nd > ns {
				simrt.Fail("C11|more-disconnects-than-connections", "hub %s reported %d disconnects for %d connections (causes %s,%s)", n.Name, nd, ns, c1, c2)
			}
			// a registered connection whose transport is closed is a leak: its end was never accounted for
			if has {
				if sc, ok := c.(api.ShipConnectionInterface); ok {
					if closed, _ := sc.DataHandler().IsDataConnectionClosed(); closed {
						stuck := ""
						for _, t := range simrt.Threads() {
							if !t.Done && (strings.HasPrefix(t.Name, "cause") || strings.Contains(t.Name, "CloseConnection")) {
								stuck += fmt.Sprintf(" [%s blocked in %s %s]", t.Name, t.OpKind, t.OpObj)
							}
						}
						simrt.Fail("C11|closed-connection-still-registered", "hub %s still has a connection registered whose transport is closed (causes %s,%s)%s", n.Name, c1, c2, stuck)
					}
				}
			}
		}
		// every established link whose both ends are closed must have been reported once by each hub that registered it
		simrt.Outcome(fmt.Sprintf("links=%d open=%d closedcalls=%d discA=%d discB=%d", len(fakews.Links()), openLinks(), len(mon.order), a.App.Count("disconnected", b.SKI), b.App.Count("disconnected", a.SKI)))
	}
}

// branching is restricted to the goroutines on the closing paths, after the connection is established
var c11cfg = simrt.Config{MaxSteps: 200000, BranchAfterMark: true,
	BranchOnly: []string{"cause", "CloseConnection", "readShipPump", "writeShipPump", "handleState", "sendWSCloseMessage", "keepThisConnection", "setHandshakeTimer"}}

func c11Scenarios(r *hx.Run) []hx.Scenario {
	var out []hx.Scenario
	pb := 0
	if r.Thorough() {
		pb = 1
	}
	for _, c := range causes {
		out = append(out, hx.Scenario{Name: "c11:single:" + c, Body: c11Body(c, "", false, false), Bounds: simrt.B(1, 0, 0), Cfg: c11cfg})
	}
	// graceful local closes on a path that takes no data any more, with a full write queue
	for _, c := range []string{"stalledDisconnectA", "stalledUnregisterA"} {
		out = append(out, hx.Scenario{Name: "c11:single:" + c, Body: c11Body(c, "", false, false), Bounds: simrt.B(pb, 0, 0), Cfg: c11cfg})
	}
	pairs := [][2]string{{"disconnectA", "disconnectB"}, {"disconnectA", "cutLink"}, {"disconnectA", "peerEOF"}, {"unregisterA", "disconnectB"},
		{"shutdownA", "disconnectB"}, {"disconnectB", "writeAfterPeerClose"}, {"cutLink", "writeAfterPeerClose"}, {"shutdownA", "shutdownB"}, {"unregisterA", "unregisterB"}}
	if r.Thorough() {
		pairs = nil
		for i, x := range causes {
			for j, y := range causes {
				if i < j {
					pairs = append(pairs, [2]string{x, y})
				}
			}
		}
	}
	for _, p := range pairs {
		out = append(out, hx.Scenario{Name: "c11:pair:" + p[0] + "+" + p[1], Body: c11Body(p[0], p[1], false, false), Bounds: simrt.B(pb, 0, 0), Cfg: c11cfg})
	}
	for _, c := range []string{"disconnectA", "cutLink", "cancelA", "shutdownB"} {
		out = append(out, hx.Scenario{Name: "c11:midhandshake:" + c, Body: c11Body(c, "", true, false), Bounds: simrt.B(pb, 0, 0), Cfg: c11cfg})
	}
	// connections that end while a pairing request is pending (one side never trusted the other)
	for _, tr := range []string{"pendingB", "pendingA"} {
		for _, c := range []string{"cutLink", "peerEOF", "disconnectA", "disconnectB", "unregisterA", "unregisterB", "cancelA", "shutdownB"} {
			if !r.Thorough() && tr == "pendingA" && c != "cutLink" && c != "unregisterB" {
				continue
			}
			out = append(out, hx.Scenario{Name: "c11:" + tr + ":" + c, Body: c11BodyT(tr, c, "", false, false), Bounds: simrt.B(pb, 0, 0), Cfg: c11cfg})
		}
	}
	for _, c := range []string{"unregisterA", "unregisterB"} {
		out = append(out, hx.Scenario{Name: "c11:midhandshake:" + c, Body: c11Body(c, "", true, false), Bounds: simrt.B(pb, 0, 0), Cfg: c11cfg})
	}
	// a local close racing with the transport failure of the same connection: one preemption between the closing
	// thread and the read pump that notices the failure (both tiers)
	for i, p := range [][2]string{{"disconnectA", "cutLink"}, {"unregisterA", "cutLink"}, {"shutdownA", "cutLink"}, {"disconnectA", "peerEOF"}} {
		if i >= 2 && !r.Thorough() {
			continue
		}
		out = append(out, hx.Scenario{Name: "c11:race:" + p[0] + "+" + p[1], Body: c11Body(p[0], p[1], false, false), Bounds: simrt.B(1, 0, 0),
			Cfg: simrt.Config{MaxSteps: 200000, BranchAfterMark: true, BranchOnly: []string{"cause", "readShipPump"}}})
	}
	for _, c := range []string{"disconnectA", "cutLink", "peerEOF"} {
		out = append(out, hx.Scenario{Name: "c11:reconnect:" + c, Body: c11Body(c, "", false, true), Bounds: simrt.B(0, 0, 0),
			Cfg: simrt.Config{MaxSteps: 200000, BranchAfterMark: true, BranchOnly: []string{"cause", "CloseConnection>func"}}})
	}
	return out
}

func main() {
	r := hx.Init("")
	r.ID = *prop
	r.ReloadKnown()
	if *prop == "C15" {
		c15Main(r)
		return
	}
	if *prop == "C09" {
		c09Main(r)
		return
	}
	if *prop == "C01" {
		c01Main(r)
		return
	}
	if *prop == "C11" && *part == "raw" {
		c11rawMain(r)
		return
	}
	if *prop == "C10" {
		if *debugHist != "" {
			c := c10cfg{bTrustsA: false, seed: "none"}
			x := simrt.Run(simrt.Config{Describe: true, MaxSteps: 20000}, nil, func() { c10Build(c)(strings.Split(*debugHist, ",")) })
			n := len(x.TraceLog)
			for _, l := range x.TraceLog[n-80:] {
				fmt.Println(l)
			}
			return
		}
		c10Main(r)
		return
	}
	var scens []hx.Scenario
	if *prop == "C11" && !r.Thorough() {
		r.EnsureBudget(240 * time.Second) // about 90 s on an idle machine, close to the default quick budget
	}
	if *prop == "C05" && !r.Thorough() {
		// the convergence scenarios are the longest executions of all checks: about 40 k of them at delay bound 1 take
		// two to three minutes on 16 cores, more than the default quick budget
		r.EnsureBudget(300 * time.Second)
	}
	switch *prop {
	case "C18":
		scens = c18Scenarios(r)
	case "C11":
		scens = append(c11Scenarios(r), c11PowerCycleScenarios(r)...)
	case "C05":
		scens = c05Scenarios(r)
	case "C20":
		scens = c20Scenarios(r)
	default:
		hx.EngineError("unknown -prop %s", *prop)
	}
	if *only != "" {
		var f []hx.Scenario
		for _, sc := range scens {
			if strings.Contains(sc.Name, *only) {
				f = append(f, sc)
			}
		}
		scens = f
	}
	if r.Worker {
		hx.SWorker(scens)
		return
	}
	if *debugScen >= 0 {
		sc := scens[*debugScen]
		cfg := sc.Cfg
		cfg.Describe = true
		x := simrt.Run(cfg, nil, sc.Body)
		for i, p := range x.Points {
			nf := 0
			for _, f := range p.Focus {
				if f {
					nf++
				}
			}
			if nf > 0 {
				fmt.Println(i, p.N, nf, p.Costs, p.Desc)
			}
		}
		fmt.Println("points", len(x.Points), "outcome", x.Outcome, x.Failures, "keys", len(x.Keys))
		dup := map[uint64]int{}
		for i, k := range x.Keys {
			if j, ok := dup[k]; ok {
				fmt.Println("dup key at", j, i, "|", x.Points[j].Desc, "|", x.Points[i].Desc)
				break
			}
			dup[k] = i
		}
		e := &simrt.Explorer{Cfg: sc.Cfg, Body: sc.Body, Bounds: simrt.Bounds{Preempt: 1, Total: 1}}
		ts := e.Tasks()
		fmt.Println("tasks", len(ts), "pruned", e.Pruned)
		e2 := &simrt.Explorer{Cfg: sc.Cfg, Body: sc.Body, Bounds: simrt.Bounds{Total: 0}, NoPrune: true}
		fmt.Println("tasks noprune", len(e2.Tasks()))
		return
	}
	hx.MaybeReplay(r, scens)
	sum := hx.ExploreAll(r, scens, true, 0)
	if sum.Diverged > 0 {
		hx.EngineError("replay divergence: %s", sum.FirstDiv)
	}
	if *prop == "C20" {
		c20Filter(sum)
	}
	viol := hx.ConfirmViolations(sum, scens)
	cov := sum.Coverage()
	var names []any
	for _, s := range scens {
		names = append(names, s.Name)
	}
	sort.Slice(names, func(i, j int) bool { return names[i].(string) < names[j].(string) })
	cov["samples"] = names
	r.Finish(hx.Result{Level: "model_checking", Coverage: cov,
		Assumptions: []string{"two complete ship-go nodes (real hub, ship, ws, mdns manager, zeroconf provider) over fake network/TLS/zeroconf; real X.509 test certificates",
			"virtual time (timely mode); scheduling points at sync/channel/timer/socket operations; happens-before state caching"},
		Violations: viol})
	_ = fakehttp.Dials
}
