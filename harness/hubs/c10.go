package main

import (
	"fmt"
	"reflect"
	"sort"
	"strings"
	"time"

	"github.com/enbility/ship-go/api"
	"github.com/enbility/ship-go/zzverif/fakehttp"
	"github.com/enbility/ship-go/zzverif/fakews"
	"github.com/enbility/ship-go/zzverif/hubx"
	"github.com/enbility/ship-go/zzverif/hx"
	"github.com/enbility/ship-go/zzverif/simrt"
)

// C10: pairing follows user intent. Explicit-state search over histories of user operations, mDNS
// appearance/disappearance and time on three real nodes: A (under test), B (peer), C (announced only).

type c10cfg struct {
	bTrustsA bool
	seed     string // none | visible | pending | completed | scheduled
	simple   bool   // all nodes use hubx.SimpleMdns (second implementation of api.MdnsInterface) instead of the MdnsManager
}

func (c c10cfg) name() string {
	n := fmt.Sprintf("bTrustsA=%v/seed=%s", c.bTrustsA, c.seed)
	if c.simple {
		n += "/simplemdns"
	}
	return n
}

type c10world struct {
	c        c10cfg
	a, b, cc *hubx.Node
	bUp, cUp bool
	regB, regC bool // ghost: A's user registered B / C and has not unregistered or cancelled since
	down     bool   // ghost: A.Shutdown returned
	dialMark int
	cancelled []any // connection objects that were pending when the user cancelled
	unregAt  time.Duration
	unregActive bool
	evLog    []string
	autoAccept bool
}

var c10Events = []string{"regB", "unregB", "cancelB", "discB", "autoOn", "autoOff", "shutdown", "bUp", "bDown", "cUp", "regC", "bRegA", "bCancelA", "wait1", "wait12"}

func (w *c10world) portOwner(port string) string {
	switch port {
	case "4712":
		return "B"
	case "4713":
		return "C"
	}
	return "?"
}

func (w *c10world) apply(ev string) {
	a, b := w.a, w.b
	switch ev {
	case "regB":
		w.regB = true
		w.unregActive = false
		a.Hub.RegisterRemoteSKI(b.SKI)
	case "unregB":
		w.regB = false
		a.Hub.UnregisterRemoteSKI(label(b.SKI))
		w.unregAt = simrt.Elapsed()
		w.unregActive = true
	case "cancelB":
		if c, ok := registry(a)[b.SKI]; ok && !completed(c) {
			if sc, ok := c.(api.ShipConnectionInterface); ok {
				if st, _ := sc.ShipHandshakeState(); uint(st) == 11 || uint(st) == 8 {
					w.cancelled = append(w.cancelled, c)
				}
			}
		}
		w.regB = false
		a.Hub.CancelPairingWithSKI(label(b.SKI))
	case "discB":
		a.Hub.DisconnectSKI(label(b.SKI), "user")
	case "autoOn":
		w.autoAccept = true
		a.Hub.SetAutoAccept(true)
	case "autoOff":
		w.autoAccept = false
		a.Hub.SetAutoAccept(false)
	case "shutdown":
		a.Hub.Shutdown()
		w.down = true
	case "bUp":
		if !w.bUp {
			w.bUp = true
			b.Start()
		}
	case "bDown":
		if b.Simple != nil {
			b.Simple.UnannounceMdnsEntry()
		} else {
			b.Mdns.UnannounceMdnsEntry()
		}
	case "cUp":
		if !w.cUp {
			w.cUp = true
			w.cc.Start()
		}
	case "regC":
		w.regC = true
		a.Hub.RegisterRemoteSKI(w.cc.SKI)
	case "bRegA":
		b.Hub.RegisterRemoteSKI(a.SKI)
	case "bCancelA":
		b.Hub.CancelPairingWithSKI(label(a.SKI))
	case "wait1":
		simrt.RunFor(time.Second)
	case "wait12":
		simrt.RunFor(12 * time.Second)
	}
	simrt.RunFor(20 * time.Millisecond) // let the operation's immediate effects settle (a few message round trips)
	// trust gained through a handshake completed under auto-accept is a registration made on the user's behalf
	if w.autoAccept && w.a.Hub.IsRemoteServiceForSKIPaired(w.b.SKI) && !w.regB {
		w.regB = true
		w.unregActive = false
	}
	if w.autoAccept && w.a.Hub.IsRemoteServiceForSKIPaired(w.cc.SKI) {
		w.regC = true
	}
	w.checkDials(ev)
	w.evLog = append(w.evLog, ev)
}

func (w *c10world) checkDials(ev string) {
	ds := fakehttp.Dials()
	for _, d := range ds[w.dialMark:] {
		if d.From != w.a.SKI {
			continue
		}
		who := w.portOwner(d.Port)
		if w.down {
			simrt.Fail("C10|dial-after-shutdown", "hub A dialled %s at %v after Shutdown returned (last event %s; history %v)", who, d.At, ev, w.evLog)
		}
		if who == "B" && !w.regB {
			simrt.Fail("C10|dial-unregistered", "hub A dialled B at %v although B is not (any longer) registered by the user (last event %s; history %v)", d.At, ev, w.evLog)
		}
		if who == "C" && !w.regC {
			simrt.Fail("C10|dial-unregistered", "hub A dialled C at %v although the user never registered it (last event %s)", d.At, ev)
		}
	}
	w.dialMark = len(ds)
}

func (w *c10world) invariants(ev string) {
	a, b := w.a, w.b
	// cancelled pending connections never complete
	for _, c := range w.cancelled {
		if completed(c) {
			simrt.Fail("C10|cancelled-handshake-completed", "a pending handshake that the user cancelled completed later (last event %s; history %v)", ev, w.evLog)
		}
	}
	// after unregister (and time for the graceful close) B is untrusted and no completed connection remains
	if w.unregActive && !w.regB {
		if a.Hub.IsRemoteServiceForSKIPaired(b.SKI) && !w.autoAccept {
			// trust may legitimately come back only through auto-accept
			simrt.Fail("C10|trusted-after-unregister", "B is still/again trusted after the user unregistered it (auto-accept off) (last event %s; history %v)", ev, w.evLog)
		}
		if simrt.Elapsed()-w.unregAt >= 2*time.Second {
			if c, ok := registry(a)[b.SKI]; ok && completed(c) && !w.autoAccept {
				simrt.Fail("C10|connected-after-unregister", "a completed connection to B exists %v after the user unregistered it (auto-accept off) (last event %s; history %v)", simrt.Elapsed()-w.unregAt, ev, w.evLog)
			}
		}
	}
}

func mapKeys(n *hubx.Node, field string) string {
	f, ok := hx.Field(n.Hub, field)
	if !ok || f.Kind() != reflect.Map {
		return "?"
	}
	var ks []string
	it := f.MapRange()
	for it.Next() {
		ks = append(ks, fmt.Sprintf("%s=%v", it.Key().String()[:4], it.Value().Interface()))
	}
	sort.Strings(ks)
	return strings.Join(ks, ",")
}

func (w *c10world) key() string {
	var sb strings.Builder
	for _, n := range []*hubx.Node{w.a, w.b, w.cc} {
		fmt.Fprintf(&sb, "%s[started=%v", n.Name, n.Started)
		reg := registry(n)
		var ks []string
		for k, c := range reg {
			st := uint(0)
			closed := false
			if sc, ok := c.(api.ShipConnectionInterface); ok {
				s, _ := sc.ShipHandshakeState()
				st = uint(s)
				closed, _ = sc.DataHandler().IsDataConnectionClosed()
			}
			ks = append(ks, fmt.Sprintf("%s:%d:%v", k[:4], st, closed))
		}
		sort.Strings(ks)
		fmt.Fprintf(&sb, " conns=%v", ks)
		if f, ok := hx.Field(n.Hub, "remoteServices"); ok && f.Kind() == reflect.Map {
			var ss []string
			it := f.MapRange()
			for it.Next() {
				if sd, ok := it.Value().Interface().(*api.ServiceDetails); ok {
					ss = append(ss, fmt.Sprintf("%s:t=%v:s=%d:aa=%v", it.Key().String()[:4], sd.Trusted(), uint(sd.ConnectionStateDetail().State()), sd.AutoAccept()))
				}
			}
			sort.Strings(ss)
			fmt.Fprintf(&sb, " svc=%v", ss)
		}
		fmt.Fprintf(&sb, " cnt=%s run=%s", mapKeys(n, "connectionAttemptCounter"), mapKeys(n, "connectionAttemptRunning"))
		if f, ok := hx.Field(n.Hub, "autoaccept"); ok {
			fmt.Fprintf(&sb, " aa=%v", f.Bool())
		}
		if f, ok := hx.Field(n.Hub, "knownMdnsEntries"); ok {
			fmt.Fprintf(&sb, " mdns=%d", f.Len())
		}
		sb.WriteString("]")
	}
	open := 0
	for _, l := range fakews.Links() {
		if !l.Client.IsClosed() && !l.Server.IsClosed() {
			open++
		}
	}
	fmt.Fprintf(&sb, "|open=%d", open)
	// pending one-shot timers that belong to the hubs' dial scheduling / ship layer (periodic pings and read deadlines excluded)
	var tms []string
	for _, t := range simrt.Timers() {
		if strings.HasPrefix(t.Label, "ws-") || strings.Contains(t.Label, "writeShipPump") {
			continue
		}
		in := t.In.Round(100 * time.Millisecond)
		tms = append(tms, fmt.Sprintf("%s+%v", t.Label, in))
	}
	sort.Strings(tms)
	fmt.Fprintf(&sb, "|tm=%v|g=%v,%v,%v,%v,%v,%d,%v", tms, w.regB, w.regC, w.down, w.bUp, w.cUp, len(w.cancelled), w.unregActive)
	return sb.String()
}

func (w *c10world) enabled() []string {
	var out []string
	for _, e := range c10Events {
		switch e {
		case "bUp":
			if w.bUp {
				continue
			}
		case "cUp":
			if w.cUp {
				continue
			}
		case "bDown", "bRegA", "bCancelA":
			if !w.bUp {
				continue
			}
		case "shutdown":
			if w.down {
				continue
			}
		case "regC":
			if w.regC {
				continue
			}
		}
		if w.down && (e == "regB" || e == "regC" || e == "autoOn" || e == "autoOff") {
			continue // the API of a shut-down hub is not used any more, except for time passing and peers acting
		}
		out = append(out, e)
	}
	return out
}

func c10Build(c c10cfg) func(hist []string) hx.GView {
	return func(hist []string) hx.GView {
		simrt.ClearTraceHooks()
		fakews.SetLatency(time.Millisecond)
		w := &c10world{c: c}
		if c.simple {
			w.a, w.b, w.cc = hubx.NewNodeSimpleMdns("A", 0, 4711), hubx.NewNodeSimpleMdns("B", 1, 4712), hubx.NewNodeSimpleMdns("C", 2, 4713)
		} else {
			w.a = hubx.NewNode("A", 0, 4711)
			w.b = hubx.NewNode("B", 1, 4712)
			w.cc = hubx.NewNode("C", 2, 4713)
		}
		if c.bTrustsA {
			w.b.Hub.RegisterRemoteSKI(w.a.SKI)
		}
		w.a.Start()
		simrt.RunFor(10 * time.Millisecond)
		// seed states: start from non-initial states too
		switch c.seed {
		case "visible":
			w.apply("bUp")
		case "pending":
			// B wants A, A does not know B yet: inbound pending request at A
			w.b.Hub.RegisterRemoteSKI(w.a.SKI)
			w.apply("bUp")
			w.apply("wait1")
		case "completed":
			w.b.Hub.RegisterRemoteSKI(w.a.SKI)
			w.apply("regB")
			w.apply("bUp")
			w.apply("wait1")
		case "scheduled":
			// a dial to B is scheduled but has not fired yet (first attempt failed, back-off running)
			fakews.SetDialFault(func(port string, n int) bool { return n == 1 })
			w.apply("regB")
			w.apply("bUp")
			w.apply("wait1")
		}
		for _, ev := range hist {
			w.apply(ev)
		}
		last := ""
		if len(hist) > 0 {
			last = hist[len(hist)-1]
		}
		w.invariants(last)
		return hx.GView{Key: w.key(), Enabled: w.enabled(), Obs: fmt.Sprintf("dials=%d open=%d", len(fakehttp.Dials()), openLinks())}
	}
}

// ---- S part: a user operation arrives while an outbound connection is being established ----

// op: unregister | cancel | shutdown; when: dial (the dial is on its way) | handshake (the connection exists, the handshake runs)
func c10RaceBody(op, when string, bTrustsA bool) func() { return raceBody(op, when, bTrustsA, false) }

// raceBody with c01 set judges the same executions by C01: once the user has withdrawn the registration (the only
// ground of trust for a connection the hub dials itself) no handshake may complete, no remote device be set up and
// no payload be delivered for that SKI.
func raceBody(op, when string, bTrustsA bool, c01 bool) func() {
	return func() {
		simrt.ClearTraceHooks()
		fakews.SetLatency(time.Millisecond)
		a := hubx.NewNode("A", 0, 4711)
		b := hubx.NewNode("B", 1, 4712)
		if bTrustsA {
			b.Hub.RegisterRemoteSKI(a.SKI)
		}
		// B never dials: what A does is what counts
		fakews.SetDialFault(func(port string, n int) bool { return port == "4711" })
		a.Start()
		b.Start()
		simrt.RunFor(100 * time.Millisecond)
		simrt.Mark()
		done := false
		opAt := 0
		cancelCovered := true
		simrt.Go("user", func() {
			switch when {
			case "dial":
				simrt.Block("dial-on-its-way", func() bool {
					for _, d := range fakehttp.Dials() {
						if d.From == a.SKI {
							return true
						}
					}
					return false
				})
			case "handshake":
				simrt.Block("link-exists", func() bool { return len(fakews.Links()) > 0 })
			}
			switch op {
			case "unregister":
				a.Hub.UnregisterRemoteSKI(label(b.SKI))
			case "cancel":
				// C10 speaks about cancelling a pending pairing: a handshake that waits for trust (hello pending / ready
				// listen); a cancel before the connection exists or during other handshake phases is not covered by it
				cancelCovered = false
				if c, ok := registry(a)[b.SKI]; ok {
					if sc, ok := c.(api.ShipConnectionInterface); ok {
						if st, _ := sc.ShipHandshakeState(); uint(st) == 11 || uint(st) == 8 {
							cancelCovered = true
						}
					}
				}
				a.Hub.CancelPairingWithSKI(label(b.SKI))
			case "shutdown":
				a.Hub.Shutdown()
			}
			opAt = len(a.App.Log)
			done = true
		})
		a.Hub.RegisterRemoteSKI(b.SKI) // queued: the hub dials at once
		simrt.RunFor(50 * time.Millisecond)
		simrt.Unmark()
		simrt.RunFor(15 * time.Second)
		if !done {
			simrt.Outcome("user operation never happened")
			return
		}
		if c01 {
			if op == "unregister" {
				for _, e := range a.App.Log[opAt:] {
					if e.SKI == b.SKI && (e.Kind == "setup" || e.Kind == "payload") {
						simrt.Fail("C01|hub|"+e.Kind+"-after-unregister", "the application got a %s for a SKI after the user had unregistered it (the unregister arrived while the hub's own %s was on its way)", e.Kind, when)
					}
				}
				if c, has := registry(a)[b.SKI]; has && completed(c) {
					simrt.Fail("C01|hub|complete-after-unregister", "a handshake with a SKI completed after the user had unregistered it (%s)", when)
				}
			}
			simrt.Outcome(fmt.Sprintf("log=%d", len(a.App.Log)))
			return
		}
		c, has := registry(a)[b.SKI]
		if op == "cancel" && !cancelCovered {
			simrt.Outcome("cancel outside the pending phase")
			return
		}
		switch op {
		case "unregister", "cancel":
			if a.Hub.IsRemoteServiceForSKIPaired(b.SKI) {
				simrt.Fail("C10|trusted-after-unregister", "B is trusted although the user's last word was %s (during %s)", op, when)
			}
			if has && completed(c) {
				simrt.Fail("C10|connected-after-unregister", "a completed connection to B exists 15 s after the user's %s, which arrived while the connection was being established (%s)", op, when)
			}
			if has {
				if sc, ok := c.(api.ShipConnectionInterface); ok {
					if closed, _ := sc.DataHandler().IsDataConnectionClosed(); !closed && op == "unregister" {
						simrt.Fail("C10|connection-open-after-unregister", "a connection to B is still open 15 s after the user unregistered it (%s)", when)
					}
				}
			}
		case "shutdown":
			if has || openLinks() > 0 {
				simrt.Fail("C10|connection-after-shutdown", "a connection to B exists / a socket is open 15 s after Shutdown returned (registered=%v open sockets=%d; %s)", has, openLinks(), when)
			}
		}
		mark := 0
		for _, d := range fakehttp.Dials() {
			if d.From == a.SKI && d.At > 200*time.Millisecond {
				mark++
			}
		}
		if mark > 0 && op != "cancel" {
			simrt.Fail("C10|dial-unregistered", "hub A dialled B %d more time(s) after the user's %s", mark, op)
		}
		simrt.Outcome(fmt.Sprintf("has=%v completed=%v paired=%v open=%d dials=%d", has, has && completed(c), a.Hub.IsRemoteServiceForSKIPaired(b.SKI), openLinks(), len(fakehttp.Dials())))
	}
}

func c10Scenarios(r *hx.Run) []hx.Scenario {
	var out []hx.Scenario
	pb := 1
	if r.Thorough() {
		pb = 2
	}
	for _, op := range []string{"unregister", "cancel", "shutdown"} {
		for _, when := range []string{"dial", "handshake"} {
			for _, bt := range []bool{true, false} {
				if !r.Thorough() && !bt && when == "handshake" && op != "cancel" {
					continue
				}
				out = append(out, hx.Scenario{Name: fmt.Sprintf("c10:race:%s-during-%s/bTrustsA=%v", op, when, bt), Body: c10RaceBody(op, when, bt), Bounds: simrt.B(pb, 0, 0),
					Cfg: simrt.Config{MaxSteps: 400000, BranchAfterMark: true, BranchOnly: []string{"user", "prepareConnectionInitation", "http.serve"}}})
			}
		}
	}
	return out
}

func c10Main(r *hx.Run) {
	depth := 4
	if r.Thorough() {
		depth = 6
	}
	var ms []hx.GModel
	for _, bt := range []bool{true, false} {
		for _, seed := range []string{"none", "visible", "pending", "completed", "scheduled"} {
			if !bt && (seed == "pending" || seed == "completed") {
				continue
			}
			c := c10cfg{bTrustsA: bt, seed: seed}
			ms = append(ms, hx.GModel{Name: c.name(), Build: c10Build(c), MaxDepth: depth, MaxStates: 200000})
		}
	}
	// the same histories with the second mDNS implementation (synchronous answers, no re-announcement events)
	for _, seed := range []string{"none", "completed"} {
		c := c10cfg{bTrustsA: true, seed: seed, simple: true}
		ms = append(ms, hx.GModel{Name: c.name(), Build: c10Build(c), MaxDepth: depth, MaxStates: 200000})
	}
	if r.Worker {
		if hx.WorkerMode() == "s" {
			hx.SWorker(c10Scenarios(r))
			return
		}
		hx.GWorker(ms)
		return
	}
	if r.ReplayIn != "" {
		var art struct {
			Replay struct {
				Scenario string `json:"scenario"`
			} `json:"replay"`
		}
		hx.ReadJSON(r.ReplayIn, &art)
		if art.Replay.Scenario != "" {
			hx.MaybeReplay(r, c10Scenarios(r))
		}
	}
	hx.GMaybeReplay(r, ms)
	sum := hx.GExploreAll(r, ms)
	viol := hx.GConfirm(sum, ms)
	cov := sum.Coverage()
	// S part
	r.EnsureBudget(60 * time.Second)
	hx.SetWorkerMode("s")
	scens := c10Scenarios(r)
	ss := hx.ExploreAll(r, scens, false, 0)
	for k := range ss.Found {
		if !strings.HasPrefix(k, "C10|") && !strings.HasPrefix(k, "panic|") && !hx.KeptKey(k) {
			delete(ss.Found, k)
		}
	}
	viol = append(viol, hx.ConfirmViolations(ss, scens)...)
	sc := ss.Coverage()
	cov["user_operation_race_scenarios"] = len(scens)
	cov["user_operation_race_executions"] = sc["executions"]
	cov["user_operation_race_completed_bound"] = sc["completed_deviation_bound"]
	cov["user_operation_race_outcomes"] = sc["outcomes"]
	cov["exhaustive"] = cov["exhaustive"].(bool) && sc["exhaustive"].(bool)
	cov["configurations"] = len(ms)
	cov["events"] = c10Events
	r.Finish(hx.Result{Level: "model_checking", Coverage: cov,
		Assumptions: []string{"three complete ship-go nodes over fake network/zeroconf; event-atomic transitions (each user operation, mDNS change or waiting period runs to quiescence under the default schedule)",
			"time passes only through the wait events (1 s, 12 s) and a 20 ms settle after each operation; histories up to the stated depth from five seed states"},
		Violations: viol})
}

// label: the SKI the way users type it from a device label (upper case, groups of four separated by blanks); the
// operations that withdraw something use this spelling, the registrations the canonical one (C15 says it makes no difference)
func label(ski string) string {
	u := strings.ToUpper(ski)
	var parts []string
	for i := 0; i < len(u); i += 4 {
		j := i + 4
		if j > len(u) {
			j = len(u)
		}
		parts = append(parts, u[i:j])
	}
	return strings.Join(parts, " ")
}
