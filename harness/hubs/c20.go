package main

import (
	"fmt"
	"net"
	"strings"
	"time"

	"github.com/enbility/ship-go/zzverif/fakews"
	"github.com/enbility/ship-go/zzverif/hubx"
	"github.com/enbility/ship-go/zzverif/fakezeroconf"
	"github.com/enbility/ship-go/zzverif/hx"
	"github.com/enbility/ship-go/zzverif/mdnsscen"
	"github.com/enbility/ship-go/zzverif/simrt"
)

// C20: happens-before race analysis (vector clocks on the synchronisation simrt implements) of every
// field / map access of ship-go (access-instrumented build) on executions of the two-hub scenarios,
// extended with application goroutines that use the hub API concurrently with traffic.

func withRaces(body func()) func() {
	return func() {
		body()
		for _, r := range simrt.Races() {
			simrt.Fail("C20|"+r.Key(), "data race on %s (%s): %s at %s  vs  %s at %s", r.Loc, r.KindAB, r.A, r.SiteA, r.B, r.SiteB)
		}
	}
}

// apiStorm: application goroutines hammer the hub API while connections are set up, used and closed.
func apiStormBody(variant string) func() {
	return func() {
		simrt.ClearTraceHooks()
		fakews.SetLatency(time.Millisecond)
		a := hubx.NewNode("A", 0, 4711)
		b := hubx.NewNode("B", 1, 4712)
		a.Hub.RegisterRemoteSKI(b.SKI)
		if variant != "pending" {
			b.Hub.RegisterRemoteSKI(a.SKI)
		}
		a.Start()
		b.Start()
		if strings.HasPrefix(variant, "write-vs-") {
			simrt.RunFor(2900 * time.Millisecond) // the schedules of the set-up are explored by the other variants
			fakews.SetDialFault(func(string, int) bool { return true }) // and those of a reconnection as well
		}
		simrt.Mark()
		at := func(name string, d time.Duration, f func()) {
			simrt.Go("app:"+name, func() {
				if d > 0 {
					simSleep(d)
				}
				f()
			})
		}
		switch variant {
		case "during-handshake":
			at("detail", 2*time.Millisecond, func() { a.Hub.PairingDetailForSki(b.SKI) })
			at("detailB", 3*time.Millisecond, func() { b.Hub.PairingDetailForSki(a.SKI) })
			at("auto", 2*time.Millisecond, func() { a.Hub.SetAutoAccept(true) })
			at("service", 4*time.Millisecond, func() { a.Hub.ServiceForSKI(b.SKI).SetShipID("x") })
			at("write", 30*time.Millisecond, func() {
				if w := a.App.Writers[b.SKI]; w != nil {
					w.WriteShipMessageWithPayload([]byte(`{"datagram":{"n":1}}`))
				}
			})
		case "detail-storm":
			// the application polls the pairing detail of both sides every millisecond of the handshake
			// (the pollers are started once the connection and its pumps exist, so that by default a pump handles the
			// message of a millisecond before the poll of that millisecond: one deviation then puts a poll anywhere
			// inside the pump's handling)
			at("spawner", 2500*time.Microsecond, func() {
				for ms := 3; ms <= 14; ms++ {
					d := time.Duration(ms)*time.Millisecond - 2500*time.Microsecond
					at(fmt.Sprintf("detailA%d", ms), d, func() { a.Hub.PairingDetailForSki(b.SKI) })
					at(fmt.Sprintf("detailB%d", ms), d, func() { b.Hub.PairingDetailForSki(a.SKI) })
				}
			})
		case "close-storm":
			at("disc", 3*time.Second, func() { a.Hub.DisconnectSKI(b.SKI, "user") })
			at("discB", 3*time.Second, func() { b.Hub.DisconnectSKI(a.SKI, "user") })
			at("detail", 3*time.Second, func() { a.Hub.PairingDetailForSki(b.SKI) })
			at("write", 3*time.Second, func() {
				if w := a.App.Writers[b.SKI]; w != nil {
					w.WriteShipMessageWithPayload([]byte(`{"datagram":{"n":1}}`))
				}
			})
		case "write-vs-break", "write-vs-eof":
			// both applications write while the transport breaks (cut in the middle resp. closed by one end); the writers
			// become runnable at the instant of the break, after the goroutine that causes it
			wr := func(n *hubx.Node, peer *hubx.Node, k int) func() {
				return func() {
					if w := n.App.Writers[peer.SKI]; w != nil {
						w.WriteShipMessageWithPayload([]byte(fmt.Sprintf(`{"datagram":{"n":%d}}`, k)))
					}
				}
			}
			// (timers of one instant fire one after the other, each followed by everything it causes: the writers are
			// therefore started by the goroutine that breaks the link, not by timers of their own)
			at("break", 100*time.Millisecond, func() {
				simrt.Go("app:writeA0", wr(a, b, 1))
				simrt.Go("app:writeB0", wr(b, a, 2))
				for _, l := range fakews.Links() {
					if variant == "write-vs-break" && !l.Client.IsClosed() {
						l.Client.CutLink()
					}
					if variant == "write-vs-eof" && !l.Server.IsClosed() {
						_ = l.Server.Close()
					}
				}
			})
		case "unregister-shutdown":
			at("unreg", 3*time.Second, func() { a.Hub.UnregisterRemoteSKI(b.SKI) })
			at("shutB", 3*time.Second, func() { b.Hub.Shutdown() })
			at("reg", 3500*time.Millisecond, func() { a.Hub.RegisterRemoteSKI(b.SKI) })
			at("shutA", 5*time.Second, func() { a.Hub.Shutdown() })
		case "pending":
			at("regB", 2*time.Second, func() { b.Hub.RegisterRemoteSKI(a.SKI) })
			at("cancel", 2*time.Second, func() { a.Hub.CancelPairingWithSKI(b.SKI) })
			at("detail", 2*time.Second, func() { b.Hub.PairingDetailForSki(a.SKI) })
			at("auto", 2*time.Second, func() { b.Hub.SetAutoAccept(true) })
		case "two-peers":
			// a third node connects to A at the same time as B: two connections to different SKIs make progress concurrently
			c := hubx.NewNode("C", 2, 4713)
			a.Hub.RegisterRemoteSKI(c.SKI)
			c.Hub.RegisterRemoteSKI(a.SKI)
			c.Start()
			at("detailC", 3*time.Millisecond, func() { a.Hub.PairingDetailForSki(c.SKI) })
			at("unregC", 3*time.Second, func() { a.Hub.UnregisterRemoteSKI(c.SKI) })
			at("discB", 3*time.Second, func() { a.Hub.DisconnectSKI(b.SKI, "x") })
		case "mdns-churn":
			at("unann", 1*time.Second, func() { a.Mdns.UnannounceMdnsEntry() })
			at("ann", 1*time.Second, func() { _ = a.Mdns.AnnounceMdnsEntry() })
			at("req", 1*time.Second, func() { a.Mdns.RequestMdnsEntries() })
			at("auto", 1*time.Second, func() { a.Hub.SetAutoAccept(true) })
			at("qr", 1*time.Second, func() { _ = a.Mdns.QRCodeText() })
			at("addr", 1*time.Second, func() {
				// the peer becomes visible under a second address: update of an existing entry
				for _, e := range fakezeroconf.TheEther().Live() {
					if e.Port == 4712 {
						c := *e
						c.AddrIPv4 = []net.IP{net.IPv4(10, 9, 9, 9)}
						fakezeroconf.TheEther().Inject(&c, false)
					}
				}
			})
			at("req2", 1*time.Second, func() { a.Mdns.RequestMdnsEntries() })
		}
		if strings.HasPrefix(variant, "write-vs-") {
			// schedules are explored while the break is noticed and handled
			simrt.RunFor(150 * time.Millisecond)
			simrt.Unmark()
			simrt.RunFor(2 * time.Second)
			simrt.Outcome(fmt.Sprintf("links=%d", len(fakews.Links())))
			return
		}
		simrt.RunFor(20 * time.Second)
		simrt.Outcome(fmt.Sprintf("links=%d", len(fakews.Links())))
	}
}

func simSleep(d time.Duration) {
	done := false
	simrt.NewTimer(d, 0, "app-sleep", func() { done = true })
	simrt.Block("sleep", func() bool { return done })
}

func c20Scenarios(r *hx.Run) []hx.Scenario {
	var out []hx.Scenario
	cfg := simrt.Config{MaxSteps: 400000, Races: true, BranchAfterMark: true, DelayBounding: true}
	d := 0
	if r.Thorough() {
		d = 1
	}
	add := func(name string, body func()) {
		dd := d
		if (strings.HasPrefix(name, "api:") && name != "api:two-peers") || strings.HasPrefix(name, "avahi:") || strings.HasPrefix(name, "converge:swap=true") {
			dd = 1 // the concurrent-API scenarios get delay bound 1 in both tiers
		}
		c := cfg
		if strings.HasPrefix(name, "api:write-vs-") {
			// preemption bounding among the writers and the pumps that notice the break (a delay only moves on to the next
			// goroutine in line, which is rarely the writer)
			c = simrt.Config{MaxSteps: 400000, Races: true, BranchAfterMark: true, DelayBounding: true, BranchOnly: []string{"app:write", "readShipPump"}}
			// two deviations reach the schedule in which the pump is held back after marking the connection closed and the writer
			// after it looked at the connection; at this level that costs 48k executions and is left to the thorough tier, the
			// quick tier has it at the websocket level (harness wsx)
			dd = 1
			if r.Thorough() {
				dd = 2
			}
		}
		out = append(out, hx.Scenario{Name: "c20:" + name, Body: withRaces(body), Bounds: simrt.Bounds{Preempt: dd, Fault: 0, Total: dd}, Cfg: c})
	}
	for _, v := range []string{"during-handshake", "detail-storm", "close-storm", "unregister-shutdown", "pending", "mdns-churn", "two-peers", "write-vs-break", "write-vs-eof"} {
		add("api:"+v, apiStormBody(v))
	}
	for _, c := range []string{"disconnectA", "unregisterA", "cutLink", "peerEOF", "shutdownA", "writeAfterPeerClose"} {
		add("close:"+c, c11Body(c, "", false, true))
	}
	add("close:disconnectA+disconnectB", c11Body("disconnectA", "disconnectB", false, true))
	add("close:shutdownA+shutdownB", c11Body("shutdownA", "shutdownB", false, true))
	for _, cc := range []c05cfg{{order: "together", reg: "before"}, {swap: true, order: "together", reg: "late"}, {order: "A-first", reg: "after", dist: []string{"restartB"}}} {
		cc.quiet = 25 * time.Second
		add("converge:"+cc.name(), c05Body(cc))
	}
	for _, k := range []string{"shutdown-vs-reconnect", "shutdown-vs-browse", "shutdown-in-retry-sleep", "shutdown-at-retry-wakeup", "announce-vs-reconnect", "double-disconnect"} {
		add("avahi:"+k, mdnsscen.RaceBody(k))
	}
	for _, cc := range []c18cfg{{name: "pending", bWaits: true}, {name: "remote-denial"}, {name: "local-cancel-early", bWaits: true, aCancels: true, cancelAt: 100 * time.Millisecond}} {
		add("pairing:"+cc.name, c18Body(cc))
	}
	return out
}

func c20Filter(sum *hx.SSummary) {
	for k := range sum.Found {
		if !strings.HasPrefix(k, "C20|") && !strings.HasPrefix(k, "panic|") && !hx.KeptKey(k) {
			delete(sum.Found, k)
		}
	}
}
