package main

import (
	"fmt"
	"os"
	"strings"
	"time"

	"github.com/enbility/ship-go/api"
	"github.com/enbility/ship-go/zzverif/fakews"
	"github.com/enbility/ship-go/zzverif/hubx"
	"github.com/enbility/ship-go/zzverif/hx"
	"github.com/enbility/ship-go/zzverif/simrt"
)

// C05: mutually paired, visible peers converge to exactly one working connection.

type c05cfg struct {
	swap    bool   // A gets the lower SKI
	order   string // A-first | B-first | together
	reg     string // before | after | late (only after the peer is visible)
	dist    []string
	quiet   time.Duration
	oneWay  bool // B can never reach A (firewall): the connection has to come from A
	narrow  bool // explore schedules only while the outage lasts (retry chains of both hubs)
	simple  bool // the hubs use the in-memory SimpleMdns (synchronous answers) instead of the MdnsManager
	early   string // "restartA" / "restartB": that hub is shut down (and replaced 2 s later) while the first connection is being set up
	c11     bool   // C11 scenario: after the quiet period the accounting of connection ends is judged (instead of convergence)
	c01     string // "" | "unregister" | "cancel": C01 scenario, the surviving hub withdraws the trust after the power cycle of its peer
}

func (c c05cfg) name() string {
	n := fmt.Sprintf("swap=%v/order=%s/reg=%s/dist=%s", c.swap, c.order, c.reg, strings.Join(c.dist, "+"))
	if c.oneWay {
		n += "/oneway"
	}
	if c.narrow {
		n += "/narrow"
	}
	if c.simple {
		n += "/simplemdns"
	}
	if c.early != "" {
		n += "/early-" + c.early
	}
	if c.c01 != "" {
		n += "/then-" + c.c01
	}
	if c.c11 {
		n += "/accounting"
	}
	return n
}

var c05Disturbances = []string{"discA", "discB", "cut", "eof", "restartA", "restartB"}

type c05world struct {
	a, b        *hubx.Node
	gen         int
	outageUntil time.Duration
}

func (w *c05world) disturb(d string, c c05cfg) {
	a, b := w.a, w.b
	if os.Getenv("VERIF_DEBUG") != "" {
		fmt.Printf("DEBUG t=%v before %s: regA=%d regB=%d open=%d links=%d\n", simrt.Elapsed(), d, len(registry(a)), len(registry(b)), openLinks(), len(fakews.Links()))
		for i, l := range fakews.Links() {
			fmt.Printf("DEBUG  link %d clientSKI=%s port=%s clientClosed=%v serverClosed=%v\n", i, l.ClientSKI[:4], l.ServerPort, l.Client.IsClosed(), l.Server.IsClosed())
		}
	}
	switch d {
	case "discA":
		a.Hub.DisconnectSKI(b.SKI, "user")
	case "discB":
		b.Hub.DisconnectSKI(a.SKI, "user")
	case "cut":
		for _, l := range fakews.Links() {
			if !l.Client.IsClosed() && !l.Server.IsClosed() {
				l.Client.CutLink()
			}
		}
	case "discAcut", "discBcut":
		// a graceful disconnect whose announce never gets an answer (the path is dead already, silently); the
		// transport error follows 100 ms later
		for _, l := range fakews.Links() {
			if !l.Client.IsClosed() && !l.Server.IsClosed() {
				l.Client.Blackhole()
			}
		}
		if d == "discAcut" {
			a.Hub.DisconnectSKI(b.SKI, "user")
		} else {
			b.Hub.DisconnectSKI(a.SKI, "user")
		}
		simrt.RunFor(100 * time.Millisecond)
		for _, l := range fakews.Links() {
			if !l.Client.IsClosed() && !l.Server.IsClosed() {
				l.Client.CutLink()
			}
		}
	case "outage":
		// the network is gone for ten seconds: established links break, connection attempts fail
		until := simrt.Elapsed() + 10*time.Second
		w.outageUntil = until
		for _, l := range fakews.Links() {
			if !l.Client.IsClosed() && !l.Server.IsClosed() {
				l.Client.CutLink()
			}
		}
	case "eof":
		for _, l := range fakews.Links() {
			if !l.Server.IsClosed() {
				_ = l.Server.Close()
			}
		}
	case "hardRestartA", "hardRestartB":
		// power cycle: the path dies silently (the peer keeps its end of the connection), the hub comes back at once
		for _, l := range fakews.Links() {
			if !l.Client.IsClosed() && !l.Server.IsClosed() {
				l.Client.Blackhole()
			}
		}
		w.disturb(strings.TrimPrefix(d, "hard"), c)
		return
	case "RestartA", "RestartB":
		w.disturb("r"+d[1:], c)
	case "restartA", "restartB":
		old := a
		if d == "restartB" {
			old = b
		}
		peer := b
		if d == "restartB" {
			peer = a
		}
		old.Hub.Shutdown()
		simrt.RunFor(2 * time.Second)
		w.gen++
		ci := 0
		if (old == b) != c.swap {
			ci = 1
		}
		n := hubx.NewNode(old.Name, ci, old.Port)
		if c.simple {
			n = hubx.NewNodeSimpleMdns(old.Name, ci, old.Port)
		}
		n.Hub.RegisterRemoteSKI(peer.SKI)
		n.Start()
		if d == "restartA" {
			w.a = n
		} else {
			w.b = n
		}
	}
}

func c05Body(c c05cfg) func() {
	return func() {
		simrt.ClearTraceHooks()
		fakews.SetLatency(time.Millisecond)
		ia, ib := 0, 1
		if c.swap {
			ia, ib = 1, 0
		}
		w := &c05world{}
		if c.simple {
			w.a, w.b = hubx.NewNodeSimpleMdns("A", ia, 4711), hubx.NewNodeSimpleMdns("B", ib, 4712)
		} else {
			w.a, w.b = hubx.NewNode("A", ia, 4711), hubx.NewNode("B", ib, 4712)
		}
		a, b := w.a, w.b
		fakews.SetDialFault(func(port string, n int) bool {
			return simrt.Elapsed() < w.outageUntil || (c.oneWay && port == "4711")
		})
		if c.reg == "before" {
			a.Hub.RegisterRemoteSKI(b.SKI)
			b.Hub.RegisterRemoteSKI(a.SKI)
		}
		// schedules of the initial convergence are explored by the scenarios without disturbances; with
		// disturbances the exploration starts at the first one
		if !c.narrow && len(c.dist) == 0 {
			simrt.Mark()
		}
		switch c.order {
		case "A-first":
			a.Start()
			simrt.RunFor(5 * time.Millisecond)
			b.Start()
		case "B-first":
			b.Start()
			simrt.RunFor(5 * time.Millisecond)
			a.Start()
		default:
			simrt.Go("startA", func() { a.Start() })
			simrt.Go("startB", func() { b.Start() })
		}
		switch c.reg {
		case "after":
			a.Hub.RegisterRemoteSKI(b.SKI)
			b.Hub.RegisterRemoteSKI(a.SKI)
		case "late":
			simrt.RunFor(200 * time.Millisecond)
			simrt.Go("regA", func() { a.Hub.RegisterRemoteSKI(b.SKI) })
			simrt.Go("regB", func() { b.Hub.RegisterRemoteSKI(a.SKI) })
		case "cancel-register":
			// only B has registered A: its request is pending at A; A's user first cancels it and then, while the aborted
			// connection still lingers, registers B after all
			b.Hub.RegisterRemoteSKI(a.SKI)
			simrt.RunFor(3 * time.Second)
			a.Hub.CancelPairingWithSKI(b.SKI)
			simrt.RunFor(300 * time.Millisecond)
			a.Hub.RegisterRemoteSKI(b.SKI)
		case "register-during-init":
			// A registers B at the moment B's connection has been accepted but has not said anything yet
			b.Hub.RegisterRemoteSKI(a.SKI)
			simrt.Go("regA-on-accept", func() {
				simrt.Block("first-link", func() bool { return len(fakews.Links()) > 0 })
				a.Hub.RegisterRemoteSKI(b.SKI)
			})
		}
		if c.early != "" {
			// shut the hub down as soon as the first socket between the two exists (its own dial or the one it is
			// accepting is then in the middle of being set up), replace it two seconds later
			old, peer := w.a, w.b
			if c.early == "restartB" {
				old, peer = w.b, w.a
			}
			simrt.Go("restarter", func() {
				simrt.Block("first-link", func() bool { return len(fakews.Links()) > 0 })
				old.Hub.Shutdown()
			})
			simrt.RunFor(3 * time.Second)
			ci := 0
			if (old == w.b) != c.swap {
				ci = 1
			}
			n := hubx.NewNode(old.Name, ci, old.Port)
			n.Hub.RegisterRemoteSKI(peer.SKI)
			n.Start()
			if old == w.a {
				w.a = n
			} else {
				w.b = n
			}
		}
		simrt.RunFor(5 * time.Second)
		for i, d := range c.dist {
			if c.narrow || i == 0 {
				simrt.Mark()
			}
			w.disturb(d, c)
			simrt.RunFor(3 * time.Second)
			if c.narrow {
				simrt.RunFor(9 * time.Second)
				simrt.Unmark()
			}
		}
		if c.c01 != "" {
			c01AfterPowerCycle(w, c)
			return
		}
		if c.c11 {
			q := c.quiet
			if q == 0 {
				q = 90 * time.Second
			}
			simrt.RunFor(q)
			c11Accounting(w.a, w.b, "power cycle "+c.name())
			c11Accounting(w.b, w.a, "power cycle "+c.name())
			simrt.Outcome(fmt.Sprintf("links=%d open=%d", len(fakews.Links()), openLinks()))
			return
		}
		// quiet period: three full back-off cycles (one and a half in the deeper schedule explorations)
		q := c.quiet
		if q == 0 {
			q = 90 * time.Second
		}
		simrt.RunFor(q)
		a, b = w.a, w.b
		// ---- oracle ----
		ra, rb := registry(a), registry(b)
		ca, okA := ra[b.SKI]
		cb, okB := rb[a.SKI]
		open := 0
		var openLink *fakews.Link
		for _, l := range fakews.Links() {
			if !l.Client.IsClosed() && !l.Server.IsClosed() {
				open++
				openLink = l
			}
		}
		desc := fmt.Sprintf("regA=%v regB=%v open=%d links=%d", okA, okB, open, len(fakews.Links()))
		if os.Getenv("VERIF_DEBUG") != "" {
			for i, l := range fakews.Links() {
				fmt.Printf("DEBUG  end: link %d at=%v clientSKI=%s port=%s clientClosed=%v serverClosed=%v\n", i, l.At, l.ClientSKI[:4], l.ServerPort, l.Client.IsClosed(), l.Server.IsClosed())
			}
		}
		switch {
		case !okA || !okB:
			simrt.Fail("C05|no-connection", "after the quiet period a hub has no registered connection to its peer (%s)", desc)
		case !completed(ca) || !completed(cb):
			simrt.Fail("C05|not-completed", "the registered connection is not completed on both sides (%s)", desc)
		case open != 1:
			simrt.Fail("C05|extra-or-missing-socket", "exactly one open socket is expected between the hubs, found %d (%s)", open, desc)
		default:
			// both registry entries must be the two ends of the one open link
			wa, _ := ca.(api.ShipConnectionInterface)
			wb, _ := cb.(api.ShipConnectionInterface)
			ea, eb := wsConnOf(wa), wsConnOf(wb)
			if !((ea == openLink.Client && eb == openLink.Server) || (ea == openLink.Server && eb == openLink.Client)) {
				simrt.Fail("C05|different-connections-kept", "the two hubs kept different connections (%s)", desc)
			}
			// the kept one of simultaneous connections is the one initiated by the higher SKI
			if len(fakews.Links()) > 1 {
				hi := a.SKI
				if b.SKI > a.SKI {
					hi = b.SKI
				}
				_ = hi
			}
			// payloads in both directions
			na, nb := a.App.Count("payload", b.SKI), b.App.Count("payload", a.SKI)
			if w1 := a.App.Writers[b.SKI]; w1 != nil {
				w1.WriteShipMessageWithPayload([]byte(`{"datagram":{"from":"A"}}`))
			}
			if w2 := b.App.Writers[a.SKI]; w2 != nil {
				w2.WriteShipMessageWithPayload([]byte(`{"datagram":{"from":"B"}}`))
			}
			simrt.RunFor(time.Second)
			if a.App.Count("payload", b.SKI) != na+1 || b.App.Count("payload", a.SKI) != nb+1 {
				simrt.Fail("C05|payload-not-delivered", "a SPINE payload written through the writer of the latest setup did not reach the peer application (%s)", desc)
			}
		}
		simrt.Outcome(desc)
	}
}

// wsConnOf digs the fake socket out of a ship connection (reflection; nil if the layout changed).
func wsConnOf(c api.ShipConnectionInterface) *fakews.Conn {
	if c == nil {
		return nil
	}
	f, ok := hx.Field(c.DataHandler(), "conn")
	if !ok || f.IsNil() {
		return nil
	}
	fc, _ := f.Interface().(*fakews.Conn)
	return fc
}

func c05Scenarios(r *hx.Run) []hx.Scenario {
	var cfgs []c05cfg
	for _, swap := range []bool{false, true} {
		for _, order := range []string{"A-first", "B-first", "together"} {
			for _, reg := range []string{"before", "after", "late"} {
				if !r.Thorough() && (order == "B-first" && reg != "before") {
					continue
				}
				cfgs = append(cfgs, c05cfg{swap: swap, order: order, reg: reg})
			}
		}
		for _, d := range c05Disturbances {
			if !r.Thorough() && d == "eof" {
				continue // quick: the link cut stands for both kinds of transport failure
			}
			cfgs = append(cfgs, c05cfg{swap: swap, order: "together", reg: "before", dist: []string{d}})
		}
		cfgs = append(cfgs, c05cfg{swap: swap, order: "together", reg: "before", dist: []string{"discAcut"}})
		cfgs = append(cfgs, c05cfg{swap: swap, order: "together", reg: "before", dist: []string{"discBcut"}})
		// attempts that fail: an outage, and a peer that can only be reached in one direction
		cfgs = append(cfgs, c05cfg{swap: swap, order: "together", reg: "before", dist: []string{"outage"}})
		if r.Thorough() {
			cfgs = append(cfgs, c05cfg{swap: swap, order: "together", reg: "before", dist: []string{"outage"}, oneWay: true})
		}
		cfgs = append(cfgs, c05cfg{swap: swap, order: "A-first", reg: "after", oneWay: true})
		// registration while a connection of the peer exists that is not waiting for the user
		cfgs = append(cfgs, c05cfg{swap: swap, order: "together", reg: "cancel-register"})
		cfgs = append(cfgs, c05cfg{swap: swap, order: "together", reg: "register-during-init"})
		// the same with the second mDNS implementation (synchronous answers, no re-announcement events)
		cfgs = append(cfgs, c05cfg{swap: swap, order: "together", reg: "before", simple: true})
		cfgs = append(cfgs, c05cfg{swap: swap, order: "A-first", reg: "late", simple: true})
		cfgs = append(cfgs, c05cfg{swap: swap, order: "together", reg: "before", dist: []string{"outage"}, simple: true})
		cfgs = append(cfgs, c05cfg{swap: swap, order: "together", reg: "before", dist: []string{"cut"}, simple: true})
		cfgs = append(cfgs, c05cfg{swap: swap, order: "together", reg: "before", dist: []string{"restartB"}, simple: true})
		if r.Thorough() {
			for _, d1 := range c05Disturbances {
				for _, d2 := range c05Disturbances {
					cfgs = append(cfgs, c05cfg{swap: swap, order: "A-first", reg: "before", dist: []string{d1, d2}})
				}
			}
		} else {
			for _, p := range [][2]string{{"discA", "discB"}, {"cut", "discA"}, {"restartA", "cut"}, {"discB", "restartB"}, {"cut", "restartB"}} {
				cfgs = append(cfgs, c05cfg{swap: swap, order: "A-first", reg: "before", dist: []string{p[0], p[1]}})
			}
		}
	}
	// branching: the dial / accept / double-connection race and the back-off choices (the rest of the
	// timing space is covered by the scenario parameters: start order, registration time, disturbances)
	focus := []string{"prepareConnectionInitation", "http.serve", "keepThisConnection", "eportMdnsEntries", "coordinateConnectionInitations", "mdns.deliver", "start", "reg"}
	var out []hx.Scenario
	for _, c := range cfgs {
		if !r.Thorough() && c.quiet == 0 {
			c.quiet = 45 * time.Second // quick: two of the longest back-off delays (20 s); thorough: 90 s
		}
		// delay bounding: at most d departures from the default scheduler among the focus goroutines,
		// and at most one (two thorough) non-default back-off duration
		d, f := 1, 1
		if r.Thorough() {
			d, f = 2, 2
		}
		out = append(out, hx.Scenario{Name: "c05:" + c.name(), Body: c05Body(c), Bounds: simrt.Bounds{Preempt: d, Fault: f, Total: d},
			Cfg: simrt.Config{MaxSteps: 600000, BranchAfterMark: true, BranchOnly: focus, DelayBounding: true}})
	}
	// the retry chains of both hubs during an outage: two departures from the default schedule, restricted to
	// the goroutines that deliver mDNS reports (a report that comes early meets the attempt that is still running)
	for _, swap := range []bool{false, true} {
		c := c05cfg{swap: swap, order: "together", reg: "before", dist: []string{"outage"}, narrow: true, quiet: 35 * time.Second}
		out = append(out, hx.Scenario{Name: "c05:retry:" + c.name(), Body: c05Body(c), Bounds: simrt.Bounds{Preempt: 2, Fault: 0, Total: 2},
			Cfg: simrt.Config{MaxSteps: 600000, BranchAfterMark: true, DelayBounding: true, BranchStartOnly: true, BranchOnly: []string{"eportMdnsEntries"}}})
	}
	// a hub is power cycled: the peer still holds the old connection when the new hub connects (a double connection
	// whose old half is registered); two deviations among the accepting / dialling / closing goroutines
	for _, swap := range []bool{false, true} {
		for _, d := range []string{"hardRestartA", "hardRestartB"} {
			// the peer notices the dead connection through its read deadline (60 s without a pong) at the latest
			c := c05cfg{swap: swap, order: "together", reg: "before", dist: []string{d}, quiet: 120 * time.Second}
			// the new connection of the hub with the higher SKI replaces the dead one at the peer: that is the case
			// with a closing goroutine racing the registration (two deviations); the other case gets one
			higherRestarts := (d == "hardRestartA") != swap
			dd := 1
			if higherRestarts {
				dd = 2
			}
			if r.Thorough() {
				dd++
			}
			c.narrow = true // branch only during the disturbance (restart and reconnection), not during the quiet period
			out = append(out, hx.Scenario{Name: "c05:powercycle:" + c.name(), Body: c05Body(c), Bounds: simrt.Bounds{Preempt: dd, Fault: 0, Total: dd},
				Cfg: simrt.Config{MaxSteps: 600000, BranchAfterMark: true, DelayBounding: true, BranchOnly: []string{"http.serve", "keepThisConnection"}}})
		}
	}
	// a hub is shut down and replaced while the first connection is being set up: nothing of the old hub may survive
	for _, swap := range []bool{false, true} {
		for _, e := range []string{"restartA", "restartB"} {
			for _, order := range []string{"A-first", "B-first"} {
				if !r.Thorough() && swap && order == "B-first" {
					continue
				}
				c := c05cfg{swap: swap, order: order, reg: "before", early: e, quiet: 35 * time.Second}
				out = append(out, hx.Scenario{Name: "c05:early:" + c.name(), Body: c05Body(c), Bounds: simrt.Bounds{Preempt: 1, Fault: 0, Total: 1},
					Cfg: simrt.Config{MaxSteps: 600000, BranchAfterMark: true, BranchOnly: []string{"restarter"}}})
			}
		}
	}
	// deeper: the simultaneous-dial race with one preemption (two thorough) on the connection set-up goroutines
	for _, swap := range []bool{false, true} {
		for _, reg := range []string{"before", "after"} {
			d := 2
			if r.Thorough() {
				d = 3
			} else if swap || reg == "after" {
				d = 1 // quick: two deviations only for the plain simultaneous start
			}
			c := c05cfg{swap: swap, order: "together", reg: reg, quiet: 35 * time.Second}
			out = append(out, hx.Scenario{Name: "c05:race:" + c.name(), Body: c05Body(c), Bounds: simrt.Bounds{Preempt: d, Fault: 0, Total: d},
				Cfg: simrt.Config{MaxSteps: 600000, BranchAfterMark: true, DelayBounding: true, BranchOnly: []string{"prepareConnectionInitation", "http.serve", "keepThisConnection"}}})
		}
	}
	return out
}

// c01AfterPowerCycle: C01 on a double connection. The peer of the surviving hub was power cycled and has connected
// again (the survivor replaced its dead connection by the new one, or is about to). The survivor's user now withdraws
// the trust; from then on nothing of that peer may reach the survivor's application, whatever connection it arrives on.
func c01AfterPowerCycle(w *c05world, c c05cfg) {
	surv, peer := w.b, w.a
	if strings.HasSuffix(c.dist[0], "B") {
		surv, peer = w.a, w.b
	}
	if c.c01 == "cancel" {
		surv.Hub.CancelPairingWithSKI(peer.SKI)
	} else {
		surv.Hub.UnregisterRemoteSKI(peer.SKI)
	}
	// what is in flight at that moment may still arrive
	simrt.RunFor(500 * time.Millisecond)
	np, ns := surv.App.Count("payload", peer.SKI), surv.App.Count("setup", peer.SKI)
	for i := 0; i < 3; i++ {
		if wr := peer.App.Writers[surv.SKI]; wr != nil {
			wr.WriteShipMessageWithPayload([]byte(fmt.Sprintf(`{"datagram":{"from":"untrusted","n":%d}}`, i)))
		}
		simrt.RunFor(25 * time.Second)
	}
	dp, ds := surv.App.Count("payload", peer.SKI)-np, surv.App.Count("setup", peer.SKI)-ns
	if dp > 0 {
		simrt.Fail("C01|payload-from-untrusted", "%d SPINE payload(s) of the peer were handed to the application after %s returned", dp, c.c01)
	}
	if ds > 0 {
		simrt.Fail("C01|setup-of-untrusted", "the device of the peer was set up %d time(s) after %s returned", ds, c.c01)
	}
	open := 0
	for _, l := range fakews.Links() {
		if !l.Client.IsClosed() && !l.Server.IsClosed() {
			open++
		}
	}
	simrt.Outcome(fmt.Sprintf("payloads=%d setups=%d open=%d", dp, ds, open))
}

func c01PowerCycleScenarios(r *hx.Run) []hx.Scenario {
	var out []hx.Scenario
	for _, swap := range []bool{false, true} {
		for _, d := range []string{"hardRestartA", "hardRestartB"} {
			// (cancelling the pairing does not close a completed connection, so only unregistering is decidable here)
			for _, op := range []string{"unregister"} {
				higherRestarts := (d == "hardRestartA") != swap
				if !higherRestarts {
					continue // the survivor keeps its dead connection and refuses the new one: no double connection at the survivor
				}
				if !r.Thorough() && swap && op == "cancel" {
					continue
				}
				c := c05cfg{swap: swap, order: "together", reg: "before", dist: []string{d}, narrow: true, c01: op}
				dd := 2
				if r.Thorough() {
					dd = 3
				}
				out = append(out, hx.Scenario{Name: "c01:powercycle:" + c.name(), Body: c05Body(c), Bounds: simrt.Bounds{Preempt: dd, Fault: 0, Total: dd},
					Cfg: simrt.Config{MaxSteps: 600000, BranchAfterMark: true, DelayBounding: true, BranchOnly: []string{"http.serve", "keepThisConnection"}}})
			}
		}
	}
	return out
}

// c11Accounting judges the application's view of hub n about its peer after things have settled (C11's last clause and
// the registry clause; the exactly-once clause needs the close monitor and is judged by the scenarios that install it).
func c11Accounting(n, peer *hubx.Node, what string) {
	last := n.App.Last(peer.SKI, "setup", "disconnected")
	reg := registry(n)
	c, has := reg[peer.SKI]
	live := has && completed(c)
	if last != nil {
		if (last.Kind == "setup") != live {
			simrt.Fail("C11|last-notification-inconsistent", "hub %s: last of {setup,disconnected} for the peer is %q but a completed connection is registered = %v (%s)", n.Name, last.Kind, live, what)
		}
	} else if live {
		simrt.Fail("C11|registered-without-setup", "hub %s has a completed connection registered but never reported a setup (%s)", n.Name, what)
	}
	if has {
		if sc, ok := c.(api.ShipConnectionInterface); ok {
			if closed, _ := sc.DataHandler().IsDataConnectionClosed(); closed {
				simrt.Fail("C11|closed-connection-still-registered", "hub %s still has a connection registered whose transport is closed (%s)", n.Name, what)
			}
		}
	}
	// a live, completed connection of the peer that this hub does not have registered: its entry was dropped with another connection's end
	if !has {
		for _, l := range fakews.Links() {
			if !l.Client.IsClosed() && !l.Server.IsClosed() {
				simrt.Fail("C11|live-connection-not-registered", "hub %s has no connection registered for its peer although a connection between the two is open (%s)", n.Name, what)
				break
			}
		}
	}
}

func c11PowerCycleScenarios(r *hx.Run) []hx.Scenario {
	var out []hx.Scenario
	for _, swap := range []bool{false, true} {
		for _, d := range []string{"hardRestartA", "hardRestartB"} {
			higherRestarts := (d == "hardRestartA") != swap
			if !higherRestarts || (!r.Thorough() && swap) {
				continue // the double connection whose new half wins is the one with a closing goroutine racing the registration
			}
			c := c05cfg{swap: swap, order: "together", reg: "before", dist: []string{d}, narrow: true, c11: true, quiet: 100 * time.Second}
			dd := 2
			if r.Thorough() {
				dd = 3
			}
			out = append(out, hx.Scenario{Name: "c11:powercycle:" + c.name(), Body: c05Body(c), Bounds: simrt.Bounds{Preempt: dd, Fault: 0, Total: dd},
				Cfg: simrt.Config{MaxSteps: 600000, BranchAfterMark: true, DelayBounding: true, BranchOnly: []string{"http.serve", "keepThisConnection"}}})
		}
	}
	return out
}
