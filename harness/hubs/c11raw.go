package main

import (
	"fmt"
	"sort"
	"strings"
	"time"

	"github.com/enbility/ship-go/api"
	"github.com/enbility/ship-go/zzverif/fakews"
	"github.com/enbility/ship-go/zzverif/hubx"
	"github.com/enbility/ship-go/zzverif/hx"
	"github.com/enbility/ship-go/zzverif/shipx"
	"github.com/enbility/ship-go/zzverif/simrt"
)

// C11 (foreign peer part): a complete hub H facing a trusted peer P that is not a ship-go node: P speaks SHIP
// correctly but with its own timing - it answers a close announce at once and reconnects at once, opens a second
// connection while the first one is alive, announces a close itself, drops connections. Every event takes 60 ms, so
// that several of them fit into the 500 ms close and notification delays of H. Explicit-state search over the
// event histories; after every history things are left to settle and the accounting of C11 is judged.

type c11rawWorld struct {
	c01world
	mon *closeMonitor
}

var c11rawEvents = []string{"connect", "full", "disc", "confirm", "confirmOld", "closeAnn", "drop", "dropOld", "data", "w1s"}

func (w *c11rawWorld) oldest() *advConn {
	for _, c := range w.conns {
		if !c.gone && !c.c.IsClosed() {
			return c
		}
	}
	return nil
}

func (w *c11rawWorld) apply(ev string) {
	switch ev {
	case "connect":
		w.connect()
	case "full":
		// the client side of a handshake, played regardless of what H answers (four round trips)
		for _, m := range []string{"init", "helloReady", "protAnn", "protSel", "pinNone", "accReq", "accMeth"} {
			w.send(m)
			simrt.RunFor(5 * time.Millisecond)
		}
	case "disc":
		w.h.Hub.DisconnectSKI(w.ski, "user")
	case "confirm":
		if ac := w.live(); ac != nil {
			_ = ac.c.WriteMessage(fakews.BinaryMessage, shipx.CloseMsg("confirm"))
		}
	case "confirmOld":
		if ac := w.oldest(); ac != nil {
			_ = ac.c.WriteMessage(fakews.BinaryMessage, shipx.CloseMsg("confirm"))
		}
	case "closeAnn":
		w.send("closeAnn")
	case "drop":
		if ac := w.live(); ac != nil {
			ac.gone = true
			_ = ac.c.Close()
		}
	case "dropOld":
		if ac := w.oldest(); ac != nil {
			ac.gone = true
			_ = ac.c.Close()
		}
	case "data":
		w.send("data")
	case "w1s":
		simrt.RunFor(time.Second)
	}
	simrt.RunFor(60 * time.Millisecond)
	w.log = append(w.log, ev)
}

// the event grain is 60 ms: the remaining delays are part of the state at that precision
func (w *c11rawWorld) key() string {
	var tms []string
	for _, t := range simrt.Timers() {
		if strings.HasPrefix(t.Label, "ws-") || strings.Contains(t.Label, "writeShipPump") {
			continue
		}
		tms = append(tms, fmt.Sprintf("%s+%v", t.Label, t.In.Round(20*time.Millisecond)))
	}
	sort.Strings(tms)
	return w.c01world.key() + fmt.Sprintf("|fine=%v", tms)
}

func (w *c11rawWorld) enabled() []string {
	var out []string
	n := w.openCount()
	if n < 2 {
		out = append(out, "connect")
	}
	if n > 0 {
		out = append(out, "full", "confirm", "closeAnn", "drop", "data")
	}
	if n > 1 {
		out = append(out, "confirmOld", "dropOld")
	}
	out = append(out, "disc", "w1s")
	return out
}

// judge: after the history, three quiet seconds (all close and notification delays, no handshake timeout), then the
// accounting must be consistent
func (w *c11rawWorld) judge() {
	simrt.RunFor(3 * time.Second)
	h := w.h
	for _, k := range w.mon.order {
		if n := w.mon.calls[k]; n > 1 {
			simrt.Fail("C11|closed-reported-twice", "HandleConnectionClosed was called %d times for one connection (history %v)", n, w.log)
		}
	}
	last := h.App.Last(w.ski, "setup", "disconnected")
	reg := registry(h)
	c, has := reg[w.ski]
	live := has && completed(c)
	if last != nil {
		if (last.Kind == "setup") != live {
			simrt.Fail("C11|last-notification-inconsistent", "the last of {setup,disconnected} for the peer is %q but a completed connection is registered = %v (history %v)", last.Kind, live, w.log)
		}
	} else if live {
		simrt.Fail("C11|registered-without-setup", "a completed connection is registered but a setup was never reported (history %v)", w.log)
	}
	if nd, nc := h.App.Count("disconnected", w.ski), len(w.conns); nd > nc {
		simrt.Fail("C11|more-disconnects-than-connections", "%d disconnects reported for %d connections (history %v)", nd, nc, w.log)
	}
	if has {
		if sc, ok := c.(api.ShipConnectionInterface); ok {
			if closed, _ := sc.DataHandler().IsDataConnectionClosed(); closed {
				simrt.Fail("C11|closed-connection-still-registered", "a connection whose transport is closed is still registered (history %v)", w.log)
			}
		}
	}
	// a live socket of the peer that the hub does not know about any more is a connection the hub forgot without ending it
	if !has && openLinks() > 0 {
		simrt.Fail("C11|open-connection-forgotten", "%d connection(s) of the peer are still open but none is registered at the hub (history %v)", openLinks(), w.log)
	}
}

func c11rawBuild(swap bool) func(hist []string) hx.GView {
	return func(hist []string) hx.GView {
		simrt.ClearTraceHooks()
		fakews.SetLatency(time.Millisecond)
		w := &c11rawWorld{}
		w.mon = installCloseMonitor()
		ih, ip := 0, 1
		if swap {
			ih, ip = 1, 0 // which of the two has the higher SKI decides which of two simultaneous connections is kept
		}
		w.h = hubx.NewNode("H", ih, 4711)
		p := hubx.NewNode("P", ip, 4712) // never started: only its certificate is used, H cannot find and dial it
		w.adv, w.ski = p.Cert, p.SKI
		w.h.Hub.RegisterRemoteSKI(w.ski)
		w.h.Start()
		simrt.RunFor(10 * time.Millisecond)
		for _, ev := range hist {
			w.apply(ev)
		}
		v := hx.GView{Key: w.key(), Enabled: w.enabled(), Obs: fmt.Sprintf("conns=%d open=%d", len(w.conns), w.openCount())}
		w.judge()
		return v
	}
}

func c11rawMain(r *hx.Run) {
	depth := 7
	if r.Thorough() {
		depth = 9
	}
	ms := []hx.GModel{{Name: "foreign-peer/certs=0,1", Build: c11rawBuild(false), MaxDepth: depth, MaxStates: 400000},
		{Name: "foreign-peer/certs=1,0", Build: c11rawBuild(true), MaxDepth: depth, MaxStates: 400000}}
	if r.Worker {
		hx.GWorker(ms)
		return
	}
	if *debugHist != "" {
		x := simrt.Run(simrt.Config{MaxSteps: 400000}, nil, func() {
			v := c11rawBuild(*debugScen == 1)(strings.Split(*debugHist, ","))
			fmt.Println(v.Key, "\n", v.Obs, v.Enabled)
		})
		fmt.Println(x.Failures, x.Panic, "steps", x.Steps, "trunc", x.Truncated, "now", x.Now)
		return
	}
	hx.GMaybeReplay(r, ms)
	sum := hx.GExploreAll(r, ms)
	viol := hx.GConfirm(sum, ms)
	cov := sum.Coverage()
	cov["events"] = c11rawEvents
	r.Finish(hx.Result{Level: "model_checking", Coverage: cov,
		Assumptions: []string{"one complete ship-go hub over the fake network and a trusted websocket client that is not a ship-go node (own timing: immediate close confirm, immediate reconnect, second connection); event-atomic transitions of 60 ms each, histories up to the stated depth; after every history three quiet seconds, then the accounting is judged"},
		Violations: viol})
}
