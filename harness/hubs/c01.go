package main

import (
	"crypto/tls"
	"fmt"
	"reflect"
	"sort"
	"strings"
	"time"

	"github.com/enbility/ship-go/api"
	"github.com/enbility/ship-go/zzverif/fakews"
	"github.com/enbility/ship-go/zzverif/hubx"
	"github.com/enbility/ship-go/zzverif/hx"
	"github.com/enbility/ship-go/zzverif/shipx"
	"github.com/enbility/ship-go/zzverif/simrt"
)

// C01 (hub half): a complete hub H (real Hub, real websocket layer, real ShipConnections) facing an
// adversarial peer P that owns a valid certificate the user of H never trusted. P connects (also twice,
// also again after an earlier connection ended), sends any message of the alphabet in any order, drops
// connections; time passes (handshake timers expire); the user of H may cancel. H must never set up the
// remote device, hand a payload to the application, reach hello-ok or mark P's SKI trusted.

type c01cfg struct {
	cancel bool   // the user of H may cancel the pairing (but never approves)
	seed   string // none | aborted (an earlier connection was aborted by P) | timedout | pending (an earlier connection is still waiting)
}

func (c c01cfg) name() string { return fmt.Sprintf("cancel=%v/seed=%s", c.cancel, c.seed) }

type advConn struct {
	c    *fakews.Conn
	recv int
	gone bool
}

type c01world struct {
	c     c01cfg
	h     *hubx.Node
	adv   tls.Certificate
	ski   string
	conns []*advConn
	log   []string
}

func c01Frames() map[string][]byte {
	return map[string][]byte{
		"init":       shipx.Init(),
		"helloReady": shipx.Hello("ready", 60000, 0),
		"helloPend":  shipx.Hello("pending", 60000, 0),
		"helloProl":  shipx.Hello("pending", -1, 1),
		"helloAbort": shipx.Hello("aborted", -1, 0),
		"protAnn":    shipx.Prot("announceMax", 1, 0, `["JSON-UTF8"]`),
		"protSel":    shipx.Prot("select", 1, 0, `["JSON-UTF8"]`),
		"pinNone":    shipx.Pin("none"),
		"accReq":     shipx.AccessRequest(),
		"accMeth":    shipx.AccessMethods("adversary"),
		"data":       shipx.Data(shipx.Datagram(1)),
		"closeAnn":   shipx.CloseMsg("announce"),
		"junk":       {1, '{', '}'},
	}
}

var c01Debug = false

var c01MsgOrder = []string{"init", "helloReady", "helloPend", "helloProl", "helloAbort", "protAnn", "protSel", "pinNone", "accReq", "accMeth", "data", "closeAnn", "junk"}

func (w *c01world) live() *advConn {
	for i := len(w.conns) - 1; i >= 0; i-- {
		if !w.conns[i].gone && !w.conns[i].c.IsClosed() {
			return w.conns[i]
		}
	}
	return nil
}

func (w *c01world) openCount() int {
	n := 0
	for _, c := range w.conns {
		if !c.gone && !c.c.IsClosed() {
			n++
		}
	}
	return n
}

func (w *c01world) connect() {
	// the dial takes (virtual) time, so it runs on its own thread, which then becomes the adversary's reader
	simrt.Go("adv-conn", func() {
		d := fakews.Dialer{TLSClientConfig: &tls.Config{Certificates: []tls.Certificate{w.adv}, InsecureSkipVerify: true}, Subprotocols: []string{api.ShipWebsocketSubProtocol}}
		c, _, err := d.Dial(fmt.Sprintf("wss://localhost:%d/ship/", w.h.Port), nil)
		if err != nil || c == nil {
			if c01Debug {
				fmt.Println("dial error:", err)
			}
			return
		}
		ac := &advConn{c: c}
		w.conns = append(w.conns, ac)
		for {
			if _, _, err := c.ReadMessage(); err != nil {
				return
			}
			ac.recv++
		}
	})
}

func (w *c01world) send(name string) {
	if ac := w.live(); ac != nil {
		_ = ac.c.WriteMessage(fakews.BinaryMessage, c01Frames()[name])
	}
}

// settle: message round trips, the 500 ms notification and close delays
func (w *c01world) settle() { simrt.RunFor(time.Second) }

func (w *c01world) apply(ev string) {
	switch ev {
	case "connect":
		w.connect()
	case "drop":
		if ac := w.live(); ac != nil {
			ac.gone = true
			_ = ac.c.Close()
		}
	case "full":
		// the whole client side of a handshake, played regardless of what H answers
		for _, m := range []string{"init", "helloReady", "protAnn", "protSel", "pinNone", "accReq", "accMeth", "data"} {
			w.send(m)
			w.settle()
		}
	case "w31":
		simrt.RunFor(30 * time.Second)
	case "w11":
		simrt.RunFor(11 * time.Second)
	case "w61":
		simrt.RunFor(61 * time.Second)
	case "cancel":
		w.h.Hub.CancelPairingWithSKI(w.ski)
	default:
		w.send(ev)
	}
	w.settle()
	w.log = append(w.log, ev)
}

func (w *c01world) check(ev string) {
	h := w.h
	if n := h.App.Count("setup", w.ski); n > 0 {
		simrt.Fail("C01|hub|setup-without-trust", "the hub set up the remote device for a SKI its user never trusted (history %v)", w.log)
	}
	if n := h.App.Count("payload", w.ski); n > 0 {
		simrt.Fail("C01|hub|payload-without-trust", "the hub handed a SPINE payload of a never trusted SKI to the application (history %v)", w.log)
	}
	if h.Hub.IsRemoteServiceForSKIPaired(w.ski) {
		simrt.Fail("C01|hub|trusted-without-grant", "the hub marks the SKI as trusted although the user never registered or approved it (last event %s; history %v)", ev, w.log)
	}
	for _, c := range registry(h) {
		if sc, ok := c.(api.ShipConnectionInterface); ok {
			st, _ := sc.ShipHandshakeState()
			if uint(st) == 13 || (uint(st) >= 18 && uint(st) <= 38) {
				simrt.Fail("C01|hub|hello-ok-without-trust", "a connection of the never trusted SKI reached %s (history %v)", shipx.StateName(st), w.log)
			}
		}
	}
}

var c01snap = hx.NewSnapper("ShipConnection.infoProvider", "ShipConnection.dataWriter", "ShipConnection.dataReader",
	"ShipConnection.handshakeTimerGeneration", "ShipConnection.handshakeTimerStopChan")

func (w *c01world) key() string {
	var sb strings.Builder
	h := w.h
	var ks []string
	for k, c := range registry(h) {
		closed := false
		if sc, ok := c.(api.ShipConnectionInterface); ok {
			closed, _ = sc.DataHandler().IsDataConnectionClosed()
		}
		ks = append(ks, fmt.Sprintf("%s:%s:closed=%v", k[:4], c01snap.Snap(c), closed))
	}
	sort.Strings(ks)
	fmt.Fprintf(&sb, "conns=%v", ks)
	if f, ok := hx.Field(h.Hub, "remoteServices"); ok && f.Kind() == reflect.Map {
		var ss []string
		it := f.MapRange()
		for it.Next() {
			if sd, ok := it.Value().Interface().(*api.ServiceDetails); ok {
				ss = append(ss, fmt.Sprintf("%s:t=%v:s=%d", it.Key().String()[:4], sd.Trusted(), uint(sd.ConnectionStateDetail().State())))
			}
		}
		sort.Strings(ss)
		fmt.Fprintf(&sb, "|svc=%v", ss)
	}
	fmt.Fprintf(&sb, "|open=%d|advopen=%d|app=%d,%d,%d,%d", openLinks(), w.openCount(), h.App.Count("setup", w.ski), h.App.Count("payload", w.ski),
		h.App.Count("connected", w.ski), h.App.Count("disconnected", w.ski))
	var tms []string
	for _, t := range simrt.Timers() {
		if strings.HasPrefix(t.Label, "ws-") || strings.Contains(t.Label, "writeShipPump") {
			continue
		}
		tms = append(tms, fmt.Sprintf("%s+%v", t.Label, t.In.Round(time.Second)))
	}
	sort.Strings(tms)
	fmt.Fprintf(&sb, "|tm=%v", tms)
	return sb.String()
}

func (w *c01world) enabled() []string {
	var out []string
	if w.openCount() < 2 {
		out = append(out, "connect")
	}
	if w.live() != nil {
		out = append(out, c01MsgOrder...)
		out = append(out, "drop", "full")
	}
	out = append(out, "w11", "w31", "w61")
	if w.c.cancel {
		out = append(out, "cancel")
	}
	return out
}

func c01Build(c c01cfg) func(hist []string) hx.GView {
	return func(hist []string) hx.GView {
		simrt.ClearTraceHooks()
		fakews.SetLatency(time.Millisecond)
		w := &c01world{c: c}
		w.h = hubx.NewNode("H", 0, 4711)
		p := hubx.NewNode("P", 1, 4712) // never started: only its certificate is used
		w.adv, w.ski = p.Cert, p.SKI
		w.h.Start()
		simrt.RunFor(10 * time.Millisecond)
		switch c.seed {
		case "aborted":
			for _, e := range []string{"connect", "init", "helloAbort"} {
				w.apply(e)
			}
		case "timedout":
			for _, e := range []string{"connect", "init", "helloReady", "w61", "w61", "w11"} {
				w.apply(e)
			}
		case "pending":
			for _, e := range []string{"connect", "init", "helloReady"} {
				w.apply(e)
			}
		}
		w.log = nil
		for _, ev := range hist {
			w.apply(ev)
		}
		last := ""
		if len(hist) > 0 {
			last = hist[len(hist)-1]
		}
		w.check(last)
		recv := 0
		for _, ac := range w.conns {
			recv += ac.recv
		}
		return hx.GView{Key: w.key(), Enabled: w.enabled(), Obs: fmt.Sprintf("conns=%d open=%d recv=%d", len(w.conns), w.openCount(), recv)}
	}
}

// S part: the only ground of trust for a connection the hub dials itself is the user's registration; it is
// withdrawn while the connection is being established
func c01Scenarios(r *hx.Run) []hx.Scenario {
	var out []hx.Scenario
	pb := 1
	if r.Thorough() {
		pb = 2
	}
	for _, when := range []string{"dial", "handshake"} {
		out = append(out, hx.Scenario{Name: "c01:race:unregister-during-" + when, Body: raceBody("unregister", when, true, true), Bounds: simrt.B(pb, 0, 0),
			Cfg: simrt.Config{MaxSteps: 400000, BranchAfterMark: true, BranchOnly: []string{"user", "prepareConnectionInitation", "http.serve"}}})
	}
	out = append(out, c01PowerCycleScenarios(r)...)
	return out
}

func c01Main(r *hx.Run) {
	depth := 5
	if r.Thorough() {
		depth = 8
	}
	var ms []hx.GModel
	for _, cancel := range []bool{false, true} {
		for _, seed := range []string{"none", "aborted", "timedout", "pending"} {
			if !r.Thorough() && cancel && (seed == "timedout" || seed == "aborted") {
				continue
			}
			c := c01cfg{cancel: cancel, seed: seed}
			ms = append(ms, hx.GModel{Name: c.name(), Build: c01Build(c), MaxDepth: depth, MaxStates: 300000})
		}
	}
	if r.Worker {
		if hx.WorkerMode() == "s" {
			hx.SWorker(c01Scenarios(r))
			return
		}
		hx.GWorker(ms)
		return
	}
	if r.ReplayIn != "" {
		var art struct {
			Replay struct {
				Scenario string `json:"scenario"`
			} `json:"replay"`
		}
		hx.ReadJSON(r.ReplayIn, &art)
		if art.Replay.Scenario != "" {
			hx.MaybeReplay(r, c01Scenarios(r))
		}
	}
	if *debugHist != "" {
		c01Debug = true
		x := simrt.Run(simrt.Config{MaxSteps: 400000}, nil, func() {
			v := c01Build(c01cfg{seed: "none"})(strings.Split(*debugHist, ","))
			fmt.Println(v.Key, "\n", v.Obs, v.Enabled)
		})
		fmt.Println(x.Failures, x.Panic, "steps", x.Steps, "trunc", x.Truncated, "now", x.Now)
		for _, t := range x.Threads {
			fmt.Printf("%+v\n", t)
		}
		return
	}
	hx.GMaybeReplay(r, ms)
	sum := hx.GExploreAll(r, ms)
	viol := hx.GConfirm(sum, ms)
	cov := sum.Coverage()
	r.EnsureBudget(60 * time.Second)
	hx.SetWorkerMode("s")
	scens := c01Scenarios(r)
	ss := hx.ExploreAll(r, scens, false, 0)
	for k := range ss.Found {
		if !strings.HasPrefix(k, "C01|") && !strings.HasPrefix(k, "panic|") && !hx.KeptKey(k) {
			delete(ss.Found, k)
		}
	}
	viol = append(viol, hx.ConfirmViolations(ss, scens)...)
	sc := ss.Coverage()
	cov["withdrawn_registration_scenarios"] = len(scens)
	cov["withdrawn_registration_executions"] = sc["executions"]
	cov["withdrawn_registration_completed_bound"] = sc["completed_deviation_bound"]
	cov["exhaustive"] = cov["exhaustive"].(bool) && sc["exhaustive"].(bool)
	cov["configurations"] = len(ms)
	cov["events"] = append(append([]string{"connect", "drop", "full", "w11", "w31", "w61", "cancel"}, c01MsgOrder...))
	r.Finish(hx.Result{Level: "model_checking", Coverage: cov,
		Assumptions: []string{"one complete ship-go hub over the fake network and an adversarial websocket client with a valid, never trusted certificate; event-atomic transitions (each message, connect, drop, cancel or waiting period runs to quiescence under the default schedule)",
			"histories up to the stated depth from four seed states (fresh hub; after a connection aborted by the peer; after a connection that timed out; with a connection still pending)"},
		Violations: viol})
}
