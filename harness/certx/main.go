// certx: C02 under the controlled scheduler. cert.SkiFromCertificate is the one function that binds a SKI to a
// certificate's key; the hub calls it from the goroutines of all TLS handshakes, requests and dials at once. Here two
// or three goroutines validate certificates concurrently - a forgery (key of its own, SKI copied from the victim),
// the victim's genuine certificate, a certificate without SKI - with a scheduling point at every logged access of the
// access build (package-level variables, struct fields), and every interleaving within the preemption bound is run.
// Oracle: each call returns what it returns when it runs alone; no data race on library state.
package main

import (
	"crypto/ecdsa"
	"crypto/elliptic"
	"crypto/rand"
	"crypto/sha1"
	"crypto/x509"
	"crypto/x509/pkix"
	"encoding/asn1"
	"encoding/hex"
	"flag"
	"fmt"
	"math/big"
	"time"

	"github.com/enbility/ship-go/cert"
	"github.com/enbility/ship-go/zzverif/hx"
	"github.com/enbility/ship-go/zzverif/simrt"
)

var prop = flag.String("prop", "C02", "C02")
var only = flag.String("only", "", "ignored")

type tc struct {
	name string
	leaf *x509.Certificate
	want string // result of a call on its own: "ski:<hex>" or "error"
}

func spkiHash(c *x509.Certificate) []byte {
	var spki struct {
		Algorithm pkix.AlgorithmIdentifier
		PublicKey asn1.BitString
	}
	if _, err := asn1.Unmarshal(c.RawSubjectPublicKeyInfo, &spki); err != nil {
		return nil
	}
	h := sha1.Sum(spki.PublicKey.RightAlign())
	return h[:]
}

func mk(name string, ski []byte, k *ecdsa.PrivateKey) *x509.Certificate {
	serial, _ := rand.Int(rand.Reader, big.NewInt(1<<62))
	tpl := x509.Certificate{SerialNumber: serial, Subject: pkix.Name{CommonName: name, Organization: []string{"verif"}},
		NotBefore: time.Now().Add(-time.Hour), NotAfter: time.Now().Add(24 * time.Hour), KeyUsage: x509.KeyUsageDigitalSignature, SubjectKeyId: ski}
	der, err := x509.CreateCertificate(rand.Reader, &tpl, &tpl, &k.PublicKey, k)
	if err != nil {
		hx.EngineError("certificate: %v", err)
	}
	leaf, err := x509.ParseCertificate(der)
	if err != nil {
		hx.EngineError("certificate: %v", err)
	}
	return leaf
}

func result(c *x509.Certificate) string {
	s, err := cert.SkiFromCertificate(c)
	if err != nil {
		return "error"
	}
	return "ski:" + s
}

func certs() []tc {
	ec := func() *ecdsa.PrivateKey { k, _ := ecdsa.GenerateKey(elliptic.P256(), rand.Reader); return k }
	kv, kf, ko := ec(), ec(), ec()
	tmp := mk("tmp", []byte{1}, kv)
	victim := mk("victim", spkiHash(tmp), kv)
	forged := mk("forged", victim.SubjectKeyId, kf) // own key, the victim's SKI
	tmp2 := mk("tmp2", []byte{1}, ko)
	other := mk("other", spkiHash(tmp2), ko)
	noski := mk("noski", nil, ec())
	out := []tc{{name: "victim", leaf: victim}, {name: "forged", leaf: forged}, {name: "other", leaf: other}, {name: "noski", leaf: noski}}
	for i := range out {
		// the reference: a certificate is valid exactly when its 20 byte SKI is the hash of its own key
		l := out[i].leaf
		if len(l.SubjectKeyId) == 20 && hex.EncodeToString(l.SubjectKeyId) == hex.EncodeToString(spkiHash(l)) {
			out[i].want = "ski:" + hex.EncodeToString(l.SubjectKeyId)
		} else {
			out[i].want = "error"
		}
	}
	if out[0].want == "error" || out[1].want != "error" {
		hx.EngineError("certificate generation: victim %s forged %s", out[0].want, out[1].want)
	}
	return out
}

func body(cs []tc, idx []int) func() {
	return func() {
		got := make([]string, len(idx))
		for n, i := range idx {
			n, i := n, i
			simrt.Go("validate-"+cs[i].name, func() { got[n] = result(cs[i].leaf) })
		}
		simrt.Quiesce()
		for n, i := range idx {
			if got[n] != cs[i].want {
				kind := "wrong-result"
				if cs[i].want == "error" {
					kind = "accepted-although-invalid"
				}
				simrt.Fail("C02|concurrent|"+kind+"|"+cs[i].name, "SkiFromCertificate(%s) returned %q (%d validation(s) running at the same time), the certificate's own key says %q", cs[i].name, got[n], len(idx), cs[i].want)
			}
		}
		for _, r := range simrt.Races() {
			simrt.Fail("C02|concurrent|race|"+r.Key(), "data race on %s (%s) between concurrent certificate validations: %s at %s  vs  %s at %s", r.Loc, r.KindAB, r.A, r.SiteA, r.B, r.SiteB)
		}
		simrt.Outcome(fmt.Sprint(got))
	}
}

func main() {
	r := hx.Init("")
	r.ID = *prop
	r.ReloadKnown()
	cs := certs()
	pb := 2
	if r.Thorough() {
		pb = 3
	}
	var scens []hx.Scenario
	sets := [][]int{{0}, {1}, {3}, {1, 0}, {0, 1}, {1, 2}, {1, 3}, {0, 2}, {1, 1}, {1, 0, 2}, {1, 0, 0}, {3, 1, 0}}
	for _, s := range sets {
		name := "certx:"
		for _, i := range s {
			name += cs[i].name + "+"
		}
		scens = append(scens, hx.Scenario{Name: name, Body: body(cs, s), Bounds: simrt.B(pb, 0, 0), Cfg: simrt.Config{MaxSteps: 100000, Races: true, AccessPoints: true}})
	}
	if r.Worker {
		hx.SWorker(scens)
		return
	}
	// executions are only independent of each other if a validation leaves nothing behind: the forgery is validated
	// before and after the genuine certificate it copies its SKI from (in this process, outside the scheduler)
	seq := []string{result(cs[1].leaf), result(cs[0].leaf), result(cs[1].leaf), result(cs[3].leaf)}
	if seq[0] != cs[1].want || seq[1] != cs[0].want || seq[2] != cs[1].want || seq[3] != cs[3].want {
		r.Finish(hx.Result{Level: "model_checking", Coverage: map[string]any{"exhaustive": false, "concurrent_validation_scenarios": 0},
			Violations: []hx.Violation{{Key: "C02|sequence|history-dependent-validation", Msg: fmt.Sprintf("validating forged, victim, forged, no-SKI one after the other returned %v, each certificate on its own gives [%s %s %s %s]: a validation depends on what was validated before", seq, cs[1].want, cs[0].want, cs[1].want, cs[3].want),
				Replay: map[string]any{"sequence": []string{"forged", "victim", "forged", "noski"}}}}})
		return
	}
	hx.MaybeReplay(r, scens)
	sum := hx.ExploreAll(r, scens, false, 0)
	if sum.Diverged > 0 {
		hx.EngineError("replay divergence: %s", sum.FirstDiv)
	}
	viol := hx.ConfirmViolations(sum, scens)
	cov := sum.Coverage()
	cov["concurrent_validation_scenarios"] = len(scens)
	r.Finish(hx.Result{Level: "model_checking", Coverage: cov,
		Assumptions: []string{"the certificates of a run are generated once (fresh keys), outside the scheduler; scheduling points at every access the access build logs (struct fields, package-level variables handed out by address), not inside the standard library"},
		Violations:  viol})
}
