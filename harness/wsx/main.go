// wsx: schedule exploration of the real ws.WebsocketConnection over the fake socket.
// -prop C12: writes racing with closure.  -prop C13: transport loss is reported and releases resources.
package main

import (
	"errors"
	"flag"
	"fmt"
	"sort"
	"strings"
	"time"

	"github.com/enbility/ship-go/ws"
	"github.com/enbility/ship-go/zzverif/fakews"
	"github.com/enbility/ship-go/zzverif/hx"
	"github.com/enbility/ship-go/zzverif/simrt"
	"github.com/enbility/ship-go/zzverif/ssync"
)

var prop = flag.String("prop", "C12", "C12|C13|C20|C08")
var only = flag.String("only", "", "development aid: explore only the scenarios whose name contains this")

// rec is the fake SHIP layer above the websocket connection.
type rec struct {
	seq       int
	incoming  []string
	incomingAt []int
	errors    []error
	errorAt   []int
	blockIn   bool
	conn      *ws.WebsocketConnection
	queried   []string // what the closed-query answered while the error was being reported
	mu        *ssync.Mutex // if set: the lock the SHIP layer holds while it handles an input (and writes its answer) and takes when it is told an error
}

func (r *rec) tick() int { r.seq++; return r.seq }

func (r *rec) HandleIncomingWebsocketMessage(m []byte) {
	simrt.Touch("rec")
	r.incoming = append(r.incoming, string(m))
	r.incomingAt = append(r.incomingAt, r.tick())
}
func (r *rec) ReportConnectionError(err error) {
	if r.mu != nil {
		r.mu.Lock()
		defer r.mu.Unlock()
	}
	simrt.Touch("rec")
	r.errors = append(r.errors, err)
	r.errorAt = append(r.errorAt, r.tick())
	// like the SHIP layer, ask the connection about its state while being told (this takes time: other goroutines run)
	if r.conn != nil {
		closed, cerr := r.conn.IsDataConnectionClosed()
		r.queried = append(r.queried, fmt.Sprintf("%v,%v", closed, cerr != nil))
	}
}

type world struct {
	a, b *fakews.Conn
	w    *ws.WebsocketConnection
	r    *rec
}

func newWorld() *world {
	a, b := fakews.Pipe("local", "peer")
	wd := &world{a: a, b: b, r: &rec{}}
	wd.w = ws.NewWebsocketConnection(a, "ski")
	wd.r.conn = wd.w
	wd.w.InitDataProcessing(wd.r)
	return wd
}

type wcall struct {
	payload  string
	begin    int
	end      int
	err      error
	closedB4 bool
	returned bool
}

func payload(i, j int) []byte { return []byte(fmt.Sprintf("\x01{\"m\":\"w%d-%d-%s\"}", i, j, strings.Repeat("x", 4))) }

// closing events
var closers = []string{"local-reason", "local-noreason", "peer-closeframe", "peer-eof", "write-fault", "link-cut"}

func (wd *world) doClose(kind string) {
	switch kind {
	case "local-reason":
		wd.w.CloseDataConnection(4001, "close")
	case "local-noreason":
		wd.w.CloseDataConnection(0, "")
	case "peer-closeframe":
		wd.a.Inject(fakews.Frame{Type: fakews.CloseMessage, Data: fakews.FormatCloseMessage(4001, "bye")})
	case "peer-eof":
		_ = wd.b.Close()
	case "link-cut":
		wd.a.CutLink()
	}
}

func c12Body(nw, per int, closer string, stall bool, sharedLock ...bool) func() {
	return func() {
		wd := newWorld()
		shared := len(sharedLock) > 0 && sharedLock[0]
		if shared {
			// the consumer serialises its inputs the way ship.ShipConnection does: a writer holds the lock that the error
			// report needs (a handler answering a message, an approval, a timer expiry)
			wd.r.mu = &ssync.Mutex{}
		}
		if closer == "write-fault" {
			wd.a.WriteFaultAt = 1
		}
		if stall {
			first := true
			wd.a.StallWrites = func(f fakews.Frame) bool {
				if f.Type == fakews.BinaryMessage && first {
					first = false
					return true
				}
				return false
			}
		}
		var calls []*wcall
		closeDone := 0
		for i := 0; i < nw; i++ {
			i := i
			for j := 0; j < per; j++ {
				calls = append(calls, &wcall{payload: string(payload(i, j))})
			}
			simrt.Go(fmt.Sprintf("writer%d", i), func() {
				for j := 0; j < per; j++ {
					c := calls[i*per+j]
					c.closedB4, _ = wd.w.IsDataConnectionClosed()
					simrt.Touch("rec")
					c.begin = wd.r.tick()
					if shared {
						wd.r.mu.Lock()
					}
					c.err = wd.w.WriteMessageToWebsocketConnection([]byte(c.payload))
					if shared {
						wd.r.mu.Unlock()
					}
					simrt.Touch("rec")
					c.end = wd.r.tick()
					c.returned = true
				}
			})
		}
		simrt.Go("closer", func() {
			wd.doClose(closer)
			simrt.Touch("rec")
			closeDone = wd.r.tick()
		})
		if stall {
			simrt.Go("unstall", func() {
				simrt.Yield("unstall")
				wd.a.Unstall()
			})
		}
		simrt.RunFor(5 * time.Second)
		// ---- oracle ----
		accepted := map[string]*wcall{}
		nOK, nErr := 0, 0
		for _, c := range calls {
			if !c.returned {
				if *prop == "C08" {
					simrt.Fail("C08|ws|writer-wedged", "a goroutine writing a message is blocked forever after the peer ended the connection (closer=%s)", closer)
				}
				simrt.Fail("C12|write-never-returned", "a write call did not return (closer=%s): blocked forever", closer)
				continue
			}
			if c.err == nil {
				accepted[c.payload] = c
				nOK++
			} else {
				nErr++
			}
			if c.closedB4 && c.err == nil {
				simrt.Fail("C12|write-after-close-accepted", "a write that began after the connection reported closed returned nil (closer=%s)", closer)
			}
			if strings.HasPrefix(closer, "local") && closeDone > 0 && c.begin > closeDone && c.err == nil {
				simrt.Fail("C12|write-after-local-close-accepted", "a write that began after CloseDataConnection returned was accepted")
			}
		}
		// what the peer received
		var got []string
		seen := map[string]int{}
		for _, f := range wd.a.Sent {
			if f.Type == fakews.BinaryMessage {
				got = append(got, string(f.Data))
			}
		}
		for pos, g := range got {
			c, ok := accepted[g]
			if !ok {
				known := false
				for _, cc := range calls {
					if cc.payload == g {
						known = true
					}
				}
				if !known {
					simrt.Fail("C12|corrupted-frame", "the peer received a frame that was never written: %q", g)
				}
				// delivered although the write reported an error: tolerated (the caller was told it may be lost)
				continue
			}
			if p, dup := seen[g]; dup {
				simrt.Fail("C12|duplicate-frame", "frame %q delivered twice (positions %d and %d)", g, p, pos)
			}
			seen[g] = pos
			_ = c
		}
		for _, x := range calls {
			for _, y := range calls {
				if x == y || x.err != nil || y.err != nil || !x.returned || !y.returned {
					continue
				}
				if x.end < y.begin { // x completed before y was called
					px, okx := seen[x.payload]
					py, oky := seen[y.payload]
					if oky && !okx {
						simrt.Fail("C12|gap", "accepted message %q (completed before %q was written) is missing although the later one was delivered", x.payload, y.payload)
					}
					if okx && oky && px > py {
						simrt.Fail("C12|reordered", "messages delivered out of acceptance order: %q after %q", x.payload, y.payload)
					}
				}
			}
		}
		simrt.Outcome(fmt.Sprintf("ok=%d err=%d delivered=%d", nOK, nErr, len(got)))
	}
}

func c12Scenarios(r *hx.Run) []hx.Scenario {
	var out []hx.Scenario
	type wp struct{ nw, per, bound int }
	// quick: up to two writers, bound 1 everywhere and bound 2 for the smallest harness;
	// thorough: up to three writers / two writes each, bound 2 (3 for the smallest)
	shapes := []wp{{1, 1, 2}, {1, 2, 1}, {2, 1, 1}}
	if r.Thorough() {
		shapes = []wp{{1, 1, 3}, {1, 2, 3}, {2, 1, 2}, {2, 2, 2}, {3, 1, 2}}
	}
	if !r.Thorough() {
		// a full queue with a further writer waiting needs three messages: the transport-failure cases get them in quick too
		for _, cl := range []string{"write-fault", "link-cut", "peer-eof"} {
			out = append(out, hx.Scenario{Name: fmt.Sprintf("c12:w=3,per=1,close=%s,stall=true", cl), Body: c12Body(3, 1, cl, true), Bounds: simrt.B(0, 0, 0)})
		}
	}
	// writers that hold the lock the consumer's error report takes (as the SHIP layer's handlers do): non-local closures
	sb := 1
	if r.Thorough() {
		sb = 2
	}
	for _, cl := range []string{"write-fault", "link-cut", "peer-eof", "peer-closeframe"} {
		out = append(out, hx.Scenario{Name: fmt.Sprintf("c12:w=3,per=1,close=%s,stall=true,sharedlock", cl), Body: c12Body(3, 1, cl, true, true), Bounds: simrt.B(sb-1, 0, 0)})
		if r.Thorough() || cl == "write-fault" {
			out = append(out, hx.Scenario{Name: fmt.Sprintf("c12:w=2,per=1,close=%s,stall=true,sharedlock", cl), Body: c12Body(2, 1, cl, true, true), Bounds: simrt.B(sb, 0, 0)})
		}
	}
	for _, sh := range shapes {
		for _, cl := range closers {
			for _, stall := range []bool{false, true} {
				if stall && sh.nw*sh.per < 2 {
					continue
				}
				out = append(out, hx.Scenario{Name: fmt.Sprintf("c12:w=%d,per=%d,close=%s,stall=%v", sh.nw, sh.per, cl, stall),
					Body: c12Body(sh.nw, sh.per, cl, stall), Bounds: simrt.B(sh.bound, 0, 0)})
			}
		}
	}
	return out
}

// ---- C13 ----

type c13cfg struct {
	kind  string // read-fault, write-fault, peer-close, peer-eof, local-reason, local-noreason, idle (pong timeout)
	k     int
	code  int
}

func (c c13cfg) String() string { return fmt.Sprintf("%s:k=%d:code=%d", c.kind, c.k, c.code) }

func c13Body(cfg c13cfg) func() {
	return func() {
		wd := newWorld()
		switch cfg.kind {
		case "read-fault":
			wd.a.ReadFaultAt = cfg.k
		case "write-fault":
			wd.a.WriteFaultAt = cfg.k
		case "write-fault-soft":
			// the k-th write fails, the receiving direction stays intact: a frame the peer sends a second later must not
			// be delivered any more (the failure has to end the connection by itself, not the next pong timeout)
			wd.a.WriteFaultAt, wd.a.WriteFaultSoft = cfg.k, true
			simrt.Go("late-peer", func() {
				simrt.Block("write-fault-happened", func() bool { return wd.a.WriteFaulted })
				later := false
				simrt.NewTimer(time.Second, 0, "late-peer", func() { later = true })
				simrt.Block("one-second-later", func() bool { return later })
				wd.a.Inject(fakews.Frame{Type: fakews.BinaryMessage, Data: []byte("\x01{\"late\":1}")})
			})
		}
		local := strings.HasPrefix(cfg.kind, "local")
		closeDone := 0
		// traffic: the peer sends two frames, the local side writes two
		simrt.Go("peer", func() {
			wd.a.Inject(fakews.Frame{Type: fakews.BinaryMessage, Data: []byte("\x01{\"p\":1}")})
			simrt.Yield("peer")
			wd.a.Inject(fakews.Frame{Type: fakews.BinaryMessage, Data: []byte("\x01{\"p\":2}")})
			simrt.Yield("peer")
			switch cfg.kind {
			case "peer-close":
				wd.a.Inject(fakews.Frame{Type: fakews.CloseMessage, Data: fakews.FormatCloseMessage(cfg.code, "x")})
			case "peer-eof":
				_ = wd.b.Close()
			}
		})
		simrt.Go("app", func() {
			_ = wd.w.WriteMessageToWebsocketConnection(payload(0, 0))
			_ = wd.w.WriteMessageToWebsocketConnection(payload(0, 1))
			switch cfg.kind {
			case "local-reason":
				wd.w.CloseDataConnection(4001, "close")
				simrt.Touch("rec")
				closeDone = wd.r.tick()
			case "local-noreason":
				wd.w.CloseDataConnection(0, "")
				simrt.Touch("rec")
				closeDone = wd.r.tick()
			}
		})
		simrt.RunFor(130 * time.Second)
		// ---- oracle ----
		closed, cerr := wd.w.IsDataConnectionClosed()
		if local {
			if len(wd.r.errors) > 0 {
				simrt.Fail("C13|error-reported-on-local-close", "ReportConnectionError(%v) was called although the connection was closed locally on purpose", wd.r.errors[0])
			}
		} else {
			if len(wd.r.errors) == 0 {
				simrt.Fail("C13|loss-not-reported", "the transport failed / the peer closed (%s) but ReportConnectionError was never called", cfg)
			} else if wd.r.errors[0] == nil {
				simrt.Fail("C13|nil-error-reported", "ReportConnectionError was called with a nil error (%s)", cfg)
			}
			if !closed || cerr == nil {
				simrt.Fail("C13|closed-query-wrong", "after %s IsDataConnectionClosed() = (%v, %v), want (true, non-nil)", cfg, closed, cerr)
			}
			for _, q := range wd.r.queried {
				if q != "true,true" {
					simrt.Fail("C13|closed-query-wrong-while-told", "while the connection error was reported (%s) IsDataConnectionClosed() answered (closed, error set) = (%s), want (true,true)", cfg, q)
				}
			}
		}
		for _, m := range wd.r.incoming {
			if strings.Contains(m, "late") {
				simrt.Fail("C13|message-after-write-failure", "a frame the peer sent one second after a write of the connection had failed was still delivered (%s)", cfg)
			}
		}
		limit := 0
		if len(wd.r.errorAt) > 0 {
			limit = wd.r.errorAt[0]
		}
		if local && closeDone > 0 {
			limit = closeDone
		}
		if limit > 0 {
			for i, at := range wd.r.incomingAt {
				if at > limit {
					simrt.Fail("C13|message-after-end", "incoming message %q was delivered after the connection end was reported/closed (%s)", wd.r.incoming[i], cfg)
				}
			}
		}
		for _, t := range simrt.Threads() {
			if strings.HasPrefix(t.Name, "ws.") && !t.Done {
				pump := "pump"
				if strings.Contains(t.Name, "readShipPump") {
					pump = "read-pump"
				} else if strings.Contains(t.Name, "writeShipPump") {
					pump = "write-pump"
				}
				simrt.Fail("C13|"+pump+"-not-terminated", "goroutine %s is still alive at the horizon (blocked in %s %s) after %s", t.Name, t.OpKind, t.OpObj, cfg)
			}
		}
		if wd.a.CloseCalls == 0 {
			simrt.Fail("C13|socket-not-closed", "the underlying connection was never closed after %s", cfg)
		}
		simrt.Outcome(fmt.Sprintf("errs=%d in=%d closecalls=%d closed=%v", len(wd.r.errors), len(wd.r.incoming), wd.a.CloseCalls, closed))
	}
}

func c13Scenarios(r *hx.Run) []hx.Scenario {
	var cfgs []c13cfg
	for k := 1; k <= 4; k++ {
		cfgs = append(cfgs, c13cfg{kind: "read-fault", k: k})
	}
	for k := 1; k <= 4; k++ { // 2 data writes, a ping at 50 s, and one more
		cfgs = append(cfgs, c13cfg{kind: "write-fault", k: k})
	}
	for k := 1; k <= 4; k++ {
		cfgs = append(cfgs, c13cfg{kind: "write-fault-soft", k: k})
	}
	for _, code := range []int{1000, 1001, 1005, 4001, 4452, 4500} {
		cfgs = append(cfgs, c13cfg{kind: "peer-close", code: code})
	}
	cfgs = append(cfgs, c13cfg{kind: "peer-eof"}, c13cfg{kind: "local-reason"}, c13cfg{kind: "local-noreason"}, c13cfg{kind: "idle"})
	pb := 1
	if r.Thorough() {
		pb = 2
	}
	var out []hx.Scenario
	for _, c := range cfgs {
		out = append(out, hx.Scenario{Name: "c13:" + c.String(), Body: c13Body(c), Bounds: simrt.B(pb, 0, 0)})
	}
	return out
}

func main() {
	r := hx.Init("")
	r.ID = *prop
	r.ReloadKnown()
	var scens []hx.Scenario
	level := "model_checking"
	switch *prop {
	case "C12":
		scens = c12Scenarios(r)
	case "C13":
		scens = c13Scenarios(r)
		level = "fault_enumeration"
	case "C20":
		scens = c20wsScenarios(r)
	case "C08":
		// the closures a peer can cause, against one to three goroutines that are sending: no panic, nobody wedged
		for _, sc := range c12Scenarios(r) {
			if strings.Contains(sc.Name, "close=peer-") || strings.Contains(sc.Name, "close=write-fault") || strings.Contains(sc.Name, "close=link-cut") {
				scens = append(scens, sc)
			}
		}
	default:
		hx.EngineError("unknown -prop %s", *prop)
	}
	if *only != "" {
		var f []hx.Scenario
		for _, sc := range scens {
			if strings.Contains(sc.Name, *only) {
				f = append(f, sc)
			}
		}
		scens = f
	}
	if r.Worker {
		hx.SWorker(scens)
		return
	}
	hx.MaybeReplay(r, scens)
	sum := hx.ExploreAll(r, scens, false, 0)
	if sum.Diverged > 0 {
		hx.EngineError("replay divergence: %s", sum.FirstDiv)
	}
	if *prop == "C08" {
		for k := range sum.Found {
			if !strings.HasPrefix(k, "C08|") && !strings.HasPrefix(k, "panic|") && !hx.KeptKey(k) {
				delete(sum.Found, k)
			}
		}
	}
	viol := hx.ConfirmViolations(sum, scens)
	cov := sum.Coverage()
	var names []string
	for _, s := range scens {
		names = append(names, s.Name)
	}
	sort.Strings(names)
	var samples []any
	for i, n := range names {
		if i%7 == 0 {
			samples = append(samples, n)
		}
	}
	cov["samples"] = samples
	cov["evaluations"] = sum.Execs
	cov["distinct_nontrivial"] = len(sum.Outcomes)
	cov["rule"] = "one scenario per (writers x writes x closing event x stalled queue) resp. per fault position / close code; every schedule within the preemption bound is executed on the real ws.WebsocketConnection; distinct_nontrivial counts distinct observable outcomes (accepted/errored/delivered counts resp. error/close observations)"
	r.Finish(hx.Result{Level: level, Coverage: cov,
		Assumptions: []string{"fakews models gorilla/websocket's control-frame handling, permanent read errors, close handshake and concurrent-writer panic", "virtual time; faults cut the link in both directions"},
		Violations:  viol})
	_ = errors.New
}
