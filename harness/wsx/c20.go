package main

import (
	"fmt"
	"strings"
	"time"

	"github.com/enbility/ship-go/zzverif/fakews"
	"github.com/enbility/ship-go/zzverif/hx"
	"github.com/enbility/ship-go/zzverif/simrt"
)

// C20 at the websocket layer: one real ws.WebsocketConnection, its two pumps, an application goroutine that uses
// it like the SHIP layer does (asks whether the connection is closed, writes, asks again), a peer, and one way the
// connection ends. The executions are short (some dozen points), so that every schedule with up to two (three)
// preemptions is run with the vector-clock race detector on - the hub-level scenarios of C20 are too long for that.
func c20wsBody(cfg c13cfg) func() {
	return func() {
		wd := newWorld()
		switch cfg.kind {
		case "read-fault":
			wd.a.ReadFaultAt = cfg.k
		case "write-fault":
			wd.a.WriteFaultAt = cfg.k
		}
		// one frame of the peer is waiting to be read; the peer's goroutine only ends the connection
		wd.a.Inject(fakews.Frame{Type: fakews.BinaryMessage, Data: []byte("\x01{\"p\":1}")})
		switch cfg.kind {
		case "peer-close", "peer-eof", "link-cut":
			simrt.Go("peer", func() {
				switch cfg.kind {
				case "peer-close":
					wd.a.Inject(fakews.Frame{Type: fakews.CloseMessage, Data: fakews.FormatCloseMessage(cfg.code, "x")})
				case "peer-eof":
					_ = wd.b.Close()
				case "link-cut":
					wd.a.CutLink()
				}
			})
		}
		simrt.Go("app", func() {
			if closed, _ := wd.w.IsDataConnectionClosed(); !closed {
				_ = wd.w.WriteMessageToWebsocketConnection(payload(0, 0))
			}
			_, _ = wd.w.IsDataConnectionClosed()
		})
		if strings.HasPrefix(cfg.kind, "local") {
			simrt.Go("user", func() {
				if cfg.kind == "local-reason" {
					wd.w.CloseDataConnection(4001, "close")
				} else {
					wd.w.CloseDataConnection(0, "")
				}
				_, _ = wd.w.IsDataConnectionClosed()
			})
		}
		simrt.RunFor(2 * time.Second)
		for _, r := range simrt.Races() {
			simrt.Fail("C20|"+r.Key(), "data race on %s (%s): %s at %s  vs  %s at %s", r.Loc, r.KindAB, r.A, r.SiteA, r.B, r.SiteB)
		}
		closed, _ := wd.w.IsDataConnectionClosed()
		simrt.Outcome(fmt.Sprintf("closed=%v errors=%d incoming=%d", closed, len(wd.r.errors), len(wd.r.incoming)))
	}
}

func c20wsScenarios(r *hx.Run) []hx.Scenario {
	cfgs := []c13cfg{{kind: "read-fault", k: 1}, {kind: "read-fault", k: 2}, {kind: "write-fault", k: 1},
		{kind: "peer-close", code: 1000}, {kind: "peer-eof"}, {kind: "link-cut"}, {kind: "local-reason"}, {kind: "local-noreason"}}
	pb := 2
	if r.Thorough() {
		pb = 3
	}
	var out []hx.Scenario
	for _, c := range cfgs {
		out = append(out, hx.Scenario{Name: "c20ws:" + c.String(), Body: c20wsBody(c), Bounds: simrt.B(pb, 0, 0), Cfg: simrt.Config{MaxSteps: 100000, Races: true}})
	}
	return out
}
