//go:build verif

package ship

import "time"

// VerifArmTimer / VerifStopTimer expose the unexported arm/stop paths to the C14 harness
// (this file exists only in the scratch copy built by /verif/bin/vcheck).
func (c *ShipConnection) VerifArmTimer(d time.Duration) {
	c.setHandshakeTimer(timeoutTimerTypeWaitForReady, d)
}

func (c *ShipConnection) VerifStopTimer() { c.stopHandshakeTimer() }
