// C14: a stopped or replaced handshake timer never fires.
// Schedule exploration (preemption-bounded DFS) of arm/stop/re-arm sequences on real
// ShipConnections under virtual time, plus the public handshake paths; the timer
// discipline monitor (shipx.TimerMonitor) is the oracle.
package main

import (
	"fmt"
	"strings"
	"time"

	"github.com/enbility/ship-go/ship"
	"github.com/enbility/ship-go/zzverif/hx"
	"github.com/enbility/ship-go/zzverif/shipx"
	"github.com/enbility/ship-go/zzverif/simrt"
)

type endpoint struct {
	L *shipx.Log
	W *shipx.Writer
	P *shipx.Provider
	C *ship.ShipConnection
}

func newEndpoint(name string, server bool, paired, allowWaiting bool) *endpoint {
	l := &shipx.Log{Name: name}
	e := &endpoint{L: l, W: &shipx.Writer{L: l}, P: &shipx.Provider{L: l, Paired: paired, AllowWaiting: allowWaiting}}
	role := ship.ShipRoleClient
	if server {
		role = ship.ShipRoleServer
	}
	e.C = ship.NewConnectionHandler(e.P, e.W, role, "local-"+name, "ski-"+name, "")
	return e
}

// ops: a3 = arm 3s, a7 = arm 7s, st = stop, g = 1s gap, G = 4s gap
func seqBody(ops []string) func() {
	return func() {
		simrt.ClearTraceHooks()
		mon := shipx.InstallTimerMonitor()
		mon.Strict = true
		e := newEndpoint("A", true, true, true)
		e.C.Run() // server role: arms the 10 s CMI timer
		for _, o := range ops {
			switch o {
			case "a3":
				e.C.VerifArmTimer(3 * time.Second)
			case "a7":
				e.C.VerifArmTimer(7 * time.Second)
			case "st":
				e.C.VerifStopTimer()
			case "g":
				simrt.RunFor(time.Second)
			case "G":
				simrt.RunFor(4 * time.Second) // longer than the short timer, shorter than the long one
			}
		}
		simrt.RunFor(40 * time.Second)
		if !mon.Seen {
			simrt.Fail("engine|no-trace-hooks", "trace hooks of the handshake timer functions did not fire")
		}
		simrt.Outcome(fmt.Sprintf("deliveries=%d timeoutReports=%d", mon.Deliveries, countTimeoutReports(e.L)))
	}
}

func countTimeoutReports(l *shipx.Log) int {
	n := 0
	for _, ev := range l.Evs {
		if ev.Kind == "state" && strings.Contains(ev.Arg, "timeout") {
			n++
		}
	}
	return n
}

// two connections sharing the scheduler: operations of one must never affect the other's timer
func multiBody(n int) func() {
	return func() {
		simrt.ClearTraceHooks()
		mon := shipx.InstallTimerMonitor()
		mon.Strict = true
		var eps []*endpoint
		for i := 0; i < n; i++ {
			eps = append(eps, newEndpoint(fmt.Sprintf("E%d", i), true, true, true))
		}
		for i, e := range eps {
			i, e := i, e
			simrt.Go(fmt.Sprintf("user%d", i), func() {
				e.C.Run()
				if i%2 == 1 {
					e.C.VerifArmTimer(3 * time.Second)
					e.C.VerifStopTimer()
				} else {
					e.C.VerifArmTimer(5 * time.Second)
				}
			})
		}
		simrt.RunFor(40 * time.Second)
		// API-level oracle: the connections whose timer stayed armed report exactly one timeout at 5 s, the others none
		for i, e := range eps {
			c := countTimeoutReports(e.L)
			if i%2 == 1 && c != 0 {
				simrt.Fail("C14|stopped-timer-fired-api", "connection %d stopped its timer but a handshake timeout error was reported: %v", i, e.L.Strings(0))
			}
		}
		simrt.Outcome(fmt.Sprintf("deliveries=%d", mon.Deliveries))
	}
}

// public paths: deliver the first k messages of a valid handshake with the given gaps, then idle
type pathCfg struct {
	name    string
	server  bool
	paired  bool
	approve int // index before which the user approves (-1 never)
	msgs    [][]byte
}

func paths() []pathCfg {
	srv := [][]byte{shipx.Init(), shipx.Hello("ready", 60000, 0), shipx.Prot("announceMax", 1, 0, `["JSON-UTF8"]`), shipx.Prot("select", 1, 0, `["JSON-UTF8"]`),
		shipx.Pin("none"), shipx.AccessRequest(), shipx.AccessMethods("peer")}
	cli := [][]byte{shipx.Init(), shipx.Hello("ready", 60000, 0), shipx.Prot("select", 1, 0, `["JSON-UTF8"]`),
		shipx.Pin("none"), shipx.AccessRequest(), shipx.AccessMethods("peer")}
	return []pathCfg{
		{name: "server-trusted", server: true, paired: true, approve: -1, msgs: srv},
		{name: "client", server: false, paired: true, approve: -1, msgs: cli},
		{name: "server-approve-after-hello", server: true, paired: false, approve: 2, msgs: srv},
		{name: "server-approve-before-hello", server: true, paired: false, approve: 1, msgs: srv},
		{name: "server-never-approved", server: true, paired: false, approve: -1, msgs: srv[:2]},
	}
}

func pathBody(pc pathCfg, k int, gap time.Duration) func() {
	return func() {
		simrt.ClearTraceHooks()
		mon := shipx.InstallTimerMonitor()
		mon.Strict = true
		e := newEndpoint("P", pc.server, pc.paired, true)
		e.C.Run()
		for i := 0; i < k && i < len(pc.msgs); i++ {
			if pc.approve == i {
				e.P.Paired = true
				e.C.ApprovePendingHandshake()
			}
			if gap > 0 {
				simrt.RunFor(gap)
			} else if gap == 0 {
				simrt.Quiesce() // messages are separated in time: spawned timer goroutines get to run
			}
			e.C.HandleIncomingWebsocketMessage(pc.msgs[i])
		}
		if pc.approve == k {
			e.P.Paired = true
			e.C.ApprovePendingHandshake()
		}
		simrt.RunFor(200 * time.Second)
		st, _ := e.C.ShipHandshakeState()
		simrt.Outcome(fmt.Sprintf("state=%s deliveries=%d closed=%v", shipx.StateName(st), mon.Deliveries, e.W.Closed))
	}
}

func scenarios(r *hx.Run) []hx.Scenario {
	var out []hx.Scenario
	maxLen, pb := 3, 2
	if r.Thorough() {
		maxLen, pb = 4, 3
	}
	alpha := []string{"a3", "a7", "st"}
	var seqs [][]string
	var gen func(cur []string)
	gen = func(cur []string) {
		if len(cur) > 0 {
			seqs = append(seqs, append([]string(nil), cur...))
		}
		if len(cur) == maxLen {
			return
		}
		for _, a := range alpha {
			gen(append(cur, a))
		}
	}
	gen(nil)
	for _, s := range seqs {
		// gap patterns: no gaps, a gap before every op, a gap only before the last op
		pats := [][]string{s}
		var all []string
		for _, o := range s {
			all = append(all, "g", o)
		}
		pats = append(pats, all)
		if len(s) > 1 {
			last := append(append([]string(nil), s[:len(s)-1]...), "g", s[len(s)-1])
			pats = append(pats, last)
			// a replaced (stale) short timer runs out while its successor is armed, then the last operation
			pats = append(pats, append(append([]string(nil), s[:len(s)-1]...), "G", s[len(s)-1]))
		}
		for _, p := range pats {
			out = append(out, hx.Scenario{Name: "seq:" + strings.Join(p, ","), Body: seqBody(p), Bounds: simrt.B(pb, 0, 0)})
		}
	}
	out = append(out, hx.Scenario{Name: "multi:2", Body: multiBody(2), Bounds: simrt.B(2, 0, 0)})
	if r.Thorough() {
		out = append(out, hx.Scenario{Name: "multi:3", Body: multiBody(3), Bounds: simrt.B(2, 0, 0)})
	}
	for _, pc := range paths() {
		for k := 0; k <= len(pc.msgs); k++ {
			gaps := []time.Duration{0, time.Second}
			if k <= 3 {
				gaps = append(gaps, -1) // burst: the first messages arrive back to back, no goroutine gets to run in between
			}
			for _, gap := range gaps {
				ppb := 1
				if r.Thorough() {
					ppb = 2
				}
				out = append(out, hx.Scenario{Name: fmt.Sprintf("path:%s:k=%d:gap=%v", pc.name, k, gap), Body: pathBody(pc, k, gap), Bounds: simrt.B(ppb, 0, 0)})
			}
		}
	}
	return out
}

func main() {
	r := hx.Init("C14")
	scens := scenarios(r)
	if r.Worker {
		hx.SWorker(scens)
		return
	}
	hx.MaybeReplay(r, scens)
	sum := hx.ExploreAll(r, scens, false, 0)
	byName := map[string]hx.Scenario{}
	for _, s := range scens {
		byName[s.Name] = s
	}
	viol := sum.Violations()
	for i, v := range viol {
		f := sum.Found[v.Key]
		ok, detail := hx.ReplayScenario(byName[f.Scenario], f.Choices, v.Key)
		if !ok {
			hx.EngineError("violation %s in %s does not replay deterministically: %s", v.Key, f.Scenario, detail)
		}
		viol[i].Msg = v.Msg + "\n[scenario " + f.Scenario + "]\n" + detail
	}
	var samples []any
	for i, s := range scens {
		if i%40 == 0 {
			samples = append(samples, s.Name)
		}
	}
	cov := sum.Coverage()
	cov["samples"] = samples
	cov["explanation"] = "every execution is the real ship.ShipConnection code (instrumented copy of /repo) under the simrt scheduler; states/transitions count scheduler decisions taken"
	if sum.Diverged > 0 {
		hx.EngineError("replay divergence: %s", sum.FirstDiv)
	}
	r.Finish(hx.Result{
		Level:       "model_checking",
		Coverage:    cov,
		Assumptions: []string{"virtual time in timely mode: computation takes no time", "scheduling points at sync/channel/timer operations only"},
		Violations:  viol,
	})
}
