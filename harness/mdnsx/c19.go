package main

import (
	"strings"
	"time"

	"github.com/enbility/ship-go/zzverif/hx"
	"github.com/enbility/ship-go/zzverif/mdnsscen"
	"github.com/enbility/ship-go/zzverif/simrt"
)

func c19Main(r *hx.Run) {
	depth := 12
	if r.Thorough() {
		depth = 14
	}
	ms := []hx.GModel{{Name: "avahi", Build: mdnsscen.Build(), MaxDepth: depth, MaxStates: 300000}}
	var scens []hx.Scenario
	pb := 2
	if r.Thorough() {
		pb = 3
	}
	for _, k := range []string{"shutdown-vs-reconnect", "shutdown-vs-browse", "shutdown-in-retry-sleep", "shutdown-at-retry-wakeup", "announce-vs-reconnect", "double-disconnect",
		"unannounce-vs-reconnect", "announce-vs-disconnect", "disconnect-at-retry-wakeup", "browse-after-reconnect", "restart-during-retry-sleep"} {
		scens = append(scens, hx.Scenario{Name: "c19:" + k, Body: mdnsscen.RaceBody(k), Bounds: simrt.B(pb, 0, 0), Cfg: simrt.Config{MaxSteps: 100000, BranchAfterMark: true}})
	}
	if r.Worker {
		if hx.WorkerMode() == "s" {
			hx.SWorker(scens)
		} else {
			hx.GWorker(ms)
		}
		return
	}
	if r.ReplayIn != "" {
		if strings.Contains(hx.ReadFile(r.ReplayIn), "\"scenario\"") {
			hx.MaybeReplay(r, scens)
		}
		hx.GMaybeReplay(r, ms)
	}
	gs := hx.GExploreAll(r, ms)
	viol := hx.GConfirm(gs, ms)
	hx.SetWorkerMode("s")
	r.EnsureBudget(60 * time.Second)
	ss := hx.ExploreAll(r, scens, true, 0)
	viol = append(viol, hx.ConfirmViolations(ss, scens)...)
	cov := gs.Coverage()
	cov["histories_depth_bound"] = depth
	sc := ss.Coverage()
	cov["race_scenarios"] = len(scens)
	cov["race_executions"] = sc["executions"]
	cov["race_completed_deviation_bound"] = sc["completed_deviation_bound"]
	cov["race_outcomes"] = sc["outcomes"]
	cov["exhaustive"] = cov["exhaustive"].(bool) && sc["exhaustive"].(bool)
	r.Finish(hx.Result{Level: "model_checking", Coverage: cov,
		Assumptions: []string{"fakeavahi implements the go-avahi contract the provider relies on: Setup fails while D-Bus is down, API calls fail while the daemon is down, a disconnect invokes the event callback on its own goroutine, signal dispatch and ServiceBrowserFree share a mutex, ServerInterface.Shutdown returns",
			"G part: event-atomic transitions, the 1 s retry sleep is virtual; S part: all schedules within the preemption bound after set-up"},
		Violations: viol})
}
