// mdnsx: real MdnsManager + real providers over the fake zeroconf ether / fake Avahi daemon.
// -prop C16: announce/parse and QR text round trip (bounded-exhaustive configuration enumeration).
package main

import (
	"net"
	"flag"
	"fmt"
	"sort"
	"strconv"
	"strings"
	"unicode/utf8"

	"github.com/enbility/ship-go/api"
	"github.com/enbility/ship-go/mdns"
	"github.com/enbility/ship-go/zzverif/fakezeroconf"
	"github.com/enbility/ship-go/zzverif/hx"
	"github.com/enbility/ship-go/zzverif/simrt"
)

var prop = flag.String("prop", "C16", "C16|C17|C19")

// rec records ReportMdnsEntries calls.
type rec struct {
	name    string
	reports []map[string]*api.MdnsEntry
	fresh   []bool
	scribble bool // the receiver modifies what it is handed (after keeping a copy)
}

func (r *rec) ReportMdnsEntries(entries map[string]*api.MdnsEntry, newEntries bool) {
	simrt.Touch("rec:" + r.name)
	// keep a copy for the oracles, then treat the report as the receiver's own, like the hub does (it narrows and sorts
	// the address lists of what it is handed): the manager's view must not depend on what a receiver does with a report
	kept := map[string]*api.MdnsEntry{}
	for k, e := range entries {
		if e == nil {
			kept[k] = nil
			continue
		}
		c := *e
		c.Addresses = append([]net.IP(nil), e.Addresses...)
		c.Categories = append([]api.DeviceCategoryType(nil), e.Categories...)
		kept[k] = &c
	}
	r.reports = append(r.reports, kept)
	r.fresh = append(r.fresh, newEntries)
	if r.scribble {
		for k, e := range entries {
			if e != nil {
				e.Addresses = []net.IP{net.IPv4(192, 0, 2, 99)}
				e.Brand, e.Identifier, e.Host = "scribbled", "scribbled", "scribbled.local."
				e.Register = !e.Register
			}
			_ = k
		}
		entries["ffff000000000000000000000000000000000000"] = &api.MdnsEntry{Ski: "ffff000000000000000000000000000000000000"}
	}
}

func (r *rec) last() map[string]*api.MdnsEntry {
	if len(r.reports) == 0 {
		return nil
	}
	return r.reports[len(r.reports)-1]
}

// ---- C16 ----

type svcCfg struct {
	SKI, Brand, Model, Type, Serial, ID string
	Cats                                []int
	CatsNil                             bool
	Auto                                bool
	Flip                                bool // SetAutoAccept(!Auto) while announced, then a fresh browser
	Port                                int
}

func (c svcCfg) String() string {
	return fmt.Sprintf("ski=%q id=%q brand=%q model=%q type=%q serial=%q cats=%v nil=%v auto=%v flip=%v port=%d", c.SKI, c.ID, c.Brand, c.Model, c.Type, c.Serial, c.Cats, c.CatsNil, c.Auto, c.Flip, c.Port)
}

func cats(c svcCfg) []api.DeviceCategoryType {
	if c.CatsNil {
		return nil
	}
	out := []api.DeviceCategoryType{}
	for _, x := range c.Cats {
		out = append(out, api.DeviceCategoryType(x))
	}
	return out
}

// reference parser of the QR text: SHIP;KEY:VALUE;...;ENDSHIP;
func parseQR(s string) (map[string]string, []string, bool) {
	if !strings.HasPrefix(s, "SHIP;") || !strings.HasSuffix(s, "ENDSHIP;") {
		return nil, nil, false
	}
	body := strings.TrimSuffix(strings.TrimPrefix(s, "SHIP;"), "ENDSHIP;")
	out := map[string]string{}
	var order []string
	if body == "" {
		return out, order, true
	}
	if !strings.HasSuffix(body, ";") {
		return nil, nil, false
	}
	for _, part := range strings.Split(strings.TrimSuffix(body, ";"), ";") {
		i := strings.Index(part, ":")
		if i <= 0 {
			return nil, nil, false
		}
		k := part[:i]
		if _, dup := out[k]; dup {
			return nil, nil, false
		}
		out[k] = part[i+1:]
		order = append(order, k)
	}
	return out, order, true
}

func prefixTrunc(in string) (maxLen int) { return 32 }

func c16Check(c svcCfg) [][2]string {
	var fails [][2]string
	fail := func(key, format string, a ...any) {
		fails = append(fails, [2]string{key, fmt.Sprintf(format, a...) + " [" + c.String() + "]"})
	}
	x := simrt.Run(simrt.Config{MaxSteps: 100000}, nil, func() {
		simrt.ClearTraceHooks()
		m1 := mdns.NewMDNS(c.SKI, c.Brand, c.Model, c.Type, c.Serial, cats(c), c.ID, "svc-1", c.Port, nil, mdns.MdnsProviderSelectionGoZeroConfOnly)
		m1.SetAutoAccept(c.Auto)
		r1 := &rec{name: "m1"}
		if err := m1.Start(r1); err != nil {
			fail("engine|start", "Start failed: %v", err)
			return
		}
		simrt.Quiesce()
		wantAuto := c.Auto
		if c.Flip {
			wantAuto = !c.Auto
			m1.SetAutoAccept(wantAuto)
			simrt.Quiesce()
		}
		// a second service is announced alongside: what is read back for one must not depend on the other
		const otherSKI = "0therservice0000000000000000000000000000"
		m3 := mdns.NewMDNS(otherSKI, "otherbrand", "othermodel", "othertype", "otherserial", []api.DeviceCategoryType{3}, "other-id", "svc-3", 4713, nil, mdns.MdnsProviderSelectionGoZeroConfOnly)
		m3.SetAutoAccept(!c.Auto)
		_ = m3.Start(&rec{name: "m3"})
		simrt.Quiesce()
		m2 := mdns.NewMDNS("browser-ski", "b", "m", "t", "s", nil, "browser", "svc-2", 4712, nil, mdns.MdnsProviderSelectionGoZeroConfOnly)
		r2 := &rec{name: "m2"}
		_ = m2.Start(r2)
		simrt.Quiesce()
		if c.SKI != otherSKI {
			var o *api.MdnsEntry
			if l := r2.last(); l != nil {
				o = l[otherSKI]
			}
			if o == nil {
				fail("C16|other-service-not-visible", "the browsing manager lost the second announced service")
			} else if o.Ski != otherSKI || o.Identifier != "other-id" || o.Brand != "otherbrand" || o.Model != "othermodel" || o.Serial != "otherserial" || o.Port != 4713 || o.Register != !c.Auto {
				fail("C16|other-service-mixed-up", "the second announced service is read back as ski=%q id=%q brand=%q model=%q serial=%q port=%d register=%v", o.Ski, o.Identifier, o.Brand, o.Model, o.Serial, o.Port, o.Register)
			}
		}
		// what was announced (TXT handed to the provider's Register call, latest)
		regs := fakezeroconf.TheEther().Registered
		var txt []string
		for _, e := range regs {
			if e.Instance == "svc-1" {
				txt = e.Text
			}
		}
		ann := map[string]string{}
		for _, t := range txt {
			if i := strings.Index(t, "="); i >= 0 {
				ann[t[:i]] = t[i+1:]
			}
		}
		inputs := map[string]string{"brand": c.Brand, "model": c.Model, "type": c.Type, "serial": c.Serial}
		for _, k := range []string{"brand", "model", "type", "serial"} {
			v, ok := ann[k]
			if !ok {
				if k == "serial" && c.Serial == "" {
					continue
				}
				fail("C16|txt-key-missing|"+k, "announced TXT has no %s", k)
				continue
			}
			if len(v) > 32 {
				fail("C16|too-long|"+k, "announced %s is %d bytes", k, len(v))
			}
			if utf8.ValidString(inputs[k]) && !utf8.ValidString(v) {
				fail("C16|invalid-utf8", "announced %s %q is not valid UTF-8 although the configured value is (a multi-byte character was cut at the 32 byte limit)", k, v)
			}
			if !strings.HasPrefix(inputs[k], v) {
				fail("C16|not-a-prefix|"+k, "announced %s %q is not a prefix of the configured value", k, v)
			}
		}
		// what the browsing manager read back
		var got *api.MdnsEntry
		if l := r2.last(); l != nil {
			got = l[c.SKI]
		}
		if got == nil {
			cause := "other"
			switch {
			case strings.Contains(c.SKI, "=") || strings.Contains(c.ID, "="):
				cause = "equals-sign-in-ski-or-id"
			case c.SKI == "":
				cause = "empty-ski"
			}
			fail("C16|entry-not-visible|"+cause, "the browsing manager has no entry for the announced service (announced TXT %q)", txt)
		} else {
			cmp := func(field, gotV, wantV string) {
				if gotV != wantV {
					cause := "other"
					if strings.Contains(wantV, "=") {
						cause = "equals-sign-in-value"
					}
					fail("C16|field-mismatch|"+field+"|"+cause, "browsed %s = %q, announced %q", field, gotV, wantV)
				}
			}
			cmp("ski", got.Ski, c.SKI)
			cmp("id", got.Identifier, c.ID)
			cmp("path", got.Path, "/ship/")
			cmp("brand", got.Brand, ann["brand"])
			cmp("model", got.Model, ann["model"])
			cmp("type", got.Type, ann["type"])
			cmp("serial", got.Serial, ann["serial"])
			if got.Register != wantAuto {
				key := "C16|register-flag-mismatch"
				if c.Flip {
					key += "|after-flip"
				}
				fail(key, "browsed register flag %v, the service announces auto-accept %v", got.Register, wantAuto)
			}
			var gc []int
			for _, x := range got.Categories {
				gc = append(gc, int(x))
			}
			if fmt.Sprint(gc) != fmt.Sprint(c.Cats) && !(len(gc) == 0 && len(c.Cats) == 0) {
				fail("C16|categories-mismatch", "browsed categories %v, configured %v", gc, c.Cats)
			}
			if got.Port != c.Port {
				fail("C16|port-mismatch", "browsed port %d, configured %d", got.Port, c.Port)
			}
		}
		// QR text
		qr := m1.QRCodeText()
		strip := func(s string) string { return strings.ReplaceAll(s, ";", "") }
		want := map[string]string{"SKI": strip(c.SKI), "ID": strip(c.ID)}
		for k, v := range map[string]string{"BRAND": ann["brand"], "TYPE": ann["type"], "MODEL": ann["model"], "SERIAL": ann["serial"]} {
			if strip(v) != "" {
				want[k] = strip(v)
			}
		}
		if !c.CatsNil {
			var cs []string
			for _, x := range c.Cats {
				cs = append(cs, strconv.Itoa(x))
			}
			if len(cs) > 0 {
				want["CAT"] = strings.Join(cs, ",")
			}
		}
		pf, _, ok := parseQR(qr)
		if !ok {
			fail("C16|qr-unparseable", "QR text %q does not parse as SHIP;KEY:VALUE;...ENDSHIP;", qr)
		} else {
			var ks []string
			for k := range want {
				ks = append(ks, k)
			}
			sort.Strings(ks)
			for _, k := range ks {
				if pf[k] != want[k] {
					cause := "other"
					if (k == "SKI" || k == "ID") && (strings.Contains(c.SKI, ";") || strings.Contains(c.ID, ";")) {
						cause = "semicolon-in-ski-or-id"
					}
					fail("C16|qr-field-mismatch|"+k+"|"+cause, "QR text %q parses %s = %q, expected %q", qr, k, pf[k], want[k])
				}
			}
			for k := range pf {
				if _, ok := want[k]; !ok {
					cause := "other"
					if strings.Contains(c.SKI, ";") || strings.Contains(c.ID, ";") {
						cause = "semicolon-in-ski-or-id"
					}
					fail("C16|qr-extra-field|"+cause, "QR text %q contains unexpected field %s", qr, k)
				}
			}
		}
	})
	if x.Panic != nil {
		fails = append(fails, [2]string{"panic|" + simrt.PanicKey(x.Panic), x.Panic.Value + "\n" + x.Panic.Stack + " [" + c.String() + "]"})
	}
	if c.Flip && c.Brand == "brand" && c.Model == "model" && c.Type == "type" && c.Serial == "serial" && c.ID == "id-1" && len(c.Cats) == 1 && !c.CatsNil && c.SKI == "aabbccddeeff00112233445566778899aabbccdd" {
		// (the TXT content does not matter for this one: the configurations with default strings only)
		fails = append(fails, c16FlipTwice(c)...)
	}
	return fails
}

// c16FlipTwice: auto-accept is changed twice in a row while the service is announced; whatever goroutines the manager
// uses to re-announce, every schedule (two preemptions) must leave the value set last on the network.
func c16FlipTwice(c svcCfg) [][2]string {
	e := &simrt.Explorer{Cfg: simrt.Config{MaxSteps: 100000, BranchAfterMark: true, BranchOnly: []string{"SetAutoAccept", "AnnounceMdnsEntry", "main"}}, Bounds: simrt.B(2, 0, 0), Body: func() {
		simrt.ClearTraceHooks()
		m1 := mdns.NewMDNS(c.SKI, c.Brand, c.Model, c.Type, c.Serial, cats(c), c.ID, "svc-1", c.Port, nil, mdns.MdnsProviderSelectionGoZeroConfOnly)
		m1.SetAutoAccept(c.Auto)
		if err := m1.Start(&rec{name: "m1"}); err != nil {
			return
		}
		simrt.Quiesce()
		simrt.Mark()
		m1.SetAutoAccept(!c.Auto)
		m1.SetAutoAccept(c.Auto)
		simrt.Quiesce()
		var txt []string
		for _, e := range fakezeroconf.TheEther().Registered {
			if e.Instance == "svc-1" {
				txt = e.Text
			}
		}
		reg := ""
		for _, t := range txt {
			if strings.HasPrefix(t, "register=") {
				reg = t[len("register="):]
			}
		}
		if reg != fmt.Sprint(c.Auto) {
			simrt.Fail("C16|register-flag-mismatch|after-two-flips", "auto-accept was set to %v and then to %v while announced; the announcement on the network ends with register=%s", !c.Auto, c.Auto, reg)
		}
	}}
	e.Explore(nil)
	var fails [][2]string
	for _, f := range e.SortedFound() {
		fails = append(fails, [2]string{f.Key, f.Msg + " [" + c.String() + "]"})
	}
	return fails
}

func c16Configs(r *hx.Run) []svcCfg {
	base := svcCfg{SKI: "aabbccddeeff00112233445566778899aabbccdd", Brand: "brand", Model: "model", Type: "type", Serial: "serial", ID: "id-1", Cats: []int{2}, Port: 4711}
	var out []svcCfg
	out = append(out, base)
	alpha := []string{"a", "=", ";", ":", " ", "\u00a0", "é", "€", "😀"}
	maxLen := 2
	if r.Thorough() {
		maxLen = 3
	}
	var strs []string
	var gen func(cur string, n int)
	gen = func(cur string, n int) {
		strs = append(strs, cur)
		if n == maxLen {
			return
		}
		for _, a := range alpha {
			gen(cur+a, n+1)
		}
	}
	gen("", 0)
	// boundary family: a^k r a^j around the 32 byte limit
	for k := 28; k <= 33; k++ {
		for _, rn := range []string{"é", "€", "😀", " "} {
			for _, j := range []int{0, 1, 5} {
				strs = append(strs, strings.Repeat("a", k)+rn+strings.Repeat("a", j))
			}
		}
	}
	set := func(c svcCfg, field, v string) svcCfg {
		switch field {
		case "brand":
			c.Brand = v
		case "model":
			c.Model = v
		case "type":
			c.Type = v
		case "serial":
			c.Serial = v
		case "ski":
			c.SKI = v
		case "id":
			c.ID = v
		}
		return c
	}
	for _, f := range []string{"brand", "model", "type", "serial"} {
		for _, s := range strs {
			out = append(out, set(base, f, s))
		}
	}
	// pairs of fields with the special one-character strings
	for _, f1 := range []string{"brand", "model"} {
		for _, f2 := range []string{"type", "serial"} {
			for _, a := range alpha {
				for _, b := range alpha {
					out = append(out, set(set(base, f1, "x"+a), f2, b+"y"))
				}
			}
		}
	}
	for _, v := range []string{"0123456789abcdef0123456789abcdef01234567", "ab;cd", "ab=cd", "ab:cd", strings.Repeat("f", 300), "AB CD"} {
		out = append(out, set(base, "ski", v), set(base, "id", v))
	}
	catLists := [][]int{{}, {1}, {2}, {7}, {1, 2}, {2, 1}, {7, 7}, {1, 7}}
	for _, cl := range catLists {
		c := base
		c.Cats = cl
		out = append(out, c)
	}
	cn := base
	cn.CatsNil, cn.Cats = true, nil
	out = append(out, cn)
	for _, auto := range []bool{false, true} {
		for _, flip := range []bool{false, true} {
			for _, port := range []int{1, 4711, 65535} {
				c := base
				c.Auto, c.Flip, c.Port = auto, flip, port
				out = append(out, c)
			}
		}
	}
	return out
}

func c16Main(r *hx.Run) {
	cfgs := c16Configs(r)
	const chunk = 50
	if r.Worker {
		hx.EnumWorker(func(args []string) (string, [][2]string) {
			a, _ := strconv.Atoi(args[0])
			b, _ := strconv.Atoi(args[1])
			var fails [][2]string
			for i := a; i < b && i < len(cfgs); i++ {
				for _, f := range c16Check(cfgs[i]) {
					fails = append(fails, [2]string{f[0], f[1] + "\x01" + strconv.Itoa(i)})
				}
			}
			return "", fails
		})
		return
	}
	if r.ReplayIn != "" {
		replayC16(r, cfgs)
		return
	}
	var tasks [][]string
	for a := 0; a < len(cfgs); a += chunk {
		tasks = append(tasks, []string{strconv.Itoa(a), strconv.Itoa(a + chunk)})
	}
	res := hx.EnumAll(r, tasks)
	found := map[string]hx.Violation{}
	count := map[string]int{}
	for _, rs := range res {
		for _, f := range rs.Fails {
			p := strings.SplitN(f, "\x00", 2)
			mi := strings.SplitN(p[1], "\x01", 2)
			count[p[0]]++
			idx, _ := strconv.Atoi(mi[1])
			if old, ok := found[p[0]]; !ok || len(mi[0]) < len(old.Msg) {
				found[p[0]] = hx.Violation{Key: p[0], Msg: mi[0], Replay: map[string]any{"config_index": idx, "config": cfgs[idx]}}
			}
		}
	}
	var viol []hx.Violation
	for k, v := range found {
		v.Count = count[k]
		viol = append(viol, v)
	}
	nontriv := 0
	for _, c := range cfgs {
		all := c.Brand + c.Model + c.Type + c.Serial + c.SKI + c.ID
		if strings.ContainsAny(all, "=;: ") || len(all) != len([]rune(all)) || c.Flip || len(c.Cats) != 1 {
			nontriv++
		}
	}
	var samples []any
	for i := 0; i < len(cfgs); i += len(cfgs)/10 + 1 {
		samples = append(samples, cfgs[i].String())
	}
	r.Finish(hx.Result{Level: "exploration", Coverage: map[string]any{"evaluations": len(cfgs), "distinct_nontrivial": nontriv,
		"rule":    "every configuration is distinct by construction: brand/model/type/serial each take all strings up to the length bound over {a,=,;,:,space,2-,3-,4-byte rune} and the 54 strings a^k r a^j straddling the 32 byte limit, pairs of fields with the special characters, SKI/identifier variants, category lists, auto-accept x flip-while-announced x ports; non-trivial = contains a separator character, a multi-byte rune, a flip or a category list other than one element. Each configuration is announced by a real MdnsManager/ZeroconfProvider and read back by a second real manager over the fake zeroconf ether under the controlled scheduler",
		"samples": samples, "exhaustive": true},
		Assumptions: []string{"fake zeroconf ether delivers the TXT slice handed to Register unchanged to every browser", "default schedule (the property quantifies over configurations)"},
		Violations:  viol})
}

func replayC16(r *hx.Run, cfgs []svcCfg) {
	var art struct {
		Key    string `json:"key"`
		Replay struct {
			Idx int `json:"config_index"`
		} `json:"replay"`
	}
	hx.ReadJSON(r.ReplayIn, &art)
	for _, f := range c16Check(cfgs[art.Replay.Idx]) {
		fmt.Println(f[0], f[1])
		if f[0] == art.Key {
			fmt.Printf("VIOLATION property=%s replay=%s\n", r.ID, r.ReplayIn)
			hx.Exit(1)
		}
	}
	fmt.Println("not reproduced")
	hx.Exit(0)
}

func main() {
	r := hx.Init("")
	r.ID = *prop
	r.ReloadKnown()
	switch *prop {
	case "C16":
		c16Main(r)
	case "C17":
		c17Main(r)
	case "C19":
		c19Main(r)
	case "C08":
		c08mMain(r)
	default:
		hx.EngineError("unknown -prop %s", *prop)
	}
}
