package main

import (
	"fmt"
	"net"
	"sort"
	"strings"
	"time"

	"github.com/enbility/ship-go/api"
	"github.com/enbility/ship-go/mdns"
	"github.com/enbility/ship-go/zzverif/fakezeroconf"
	"github.com/enbility/ship-go/zzverif/hubx"
	"github.com/enbility/ship-go/zzverif/hx"
	"github.com/enbility/ship-go/zzverif/simrt"
)

// C17: the visible-services view tracks the mDNS history (G) and its asynchronous reports converge (S).

const localSKI = "1111111111111111111111111111111111111111"

var c17SKIs = map[string]string{"S1": "aaaa000000000000000000000000000000000001", "S2": "bbbb000000000000000000000000000000000002", "self": localSKI}
var c17Addrs = map[string]string{"a1": "10.0.0.1", "a2": "10.0.0.2", "ll": "fe80::1", "g6": "2001:db8::1", "l4": "169.254.7.7"}
var c17Defects = []string{"txtvers2", "noid", "nopath", "noski", "noregister", "registermaybe"}

func c17Events(thorough bool) []string {
	var out []string
	svcs := []string{"S1", "S2", "self"}
	for _, s := range svcs {
		for _, a := range []string{"a1", "a2", "ll", "g6"} {
			if s == "self" && a != "a1" {
				continue
			}
			if s == "S2" && !thorough && (a == "ll" || a == "g6") {
				continue
			}
			out = append(out, "add:"+s+":"+a)
		}
		out = append(out, "rm:"+s)
	}
	// one record carrying several addresses (zeroconf delivers a record with all A / AAAA answers): a known
	// address followed by a new one, two IPv4 addresses, IPv4 + link-local + global IPv6
	out = append(out, "add:S1:a1+g6", "add:S1:a1+a2")
	// an IPv4 link-local address (self-assigned, the only address of a device on a network without DHCP) is usable;
	// net.ParseIP hands it out in the 16 byte form
	out = append(out, "add:S1:l4", "add:S2:a1+l4")
	if thorough {
		out = append(out, "add:S1:a2+ll+g6", "add:S2:a1+g6")
	}
	for _, d := range c17Defects {
		out = append(out, "bad:S1:"+d)
	}
	out = append(out, "bad:S2:txtvers2")
	return out
}

func c17Entry(ev string) (*fakezeroconf.ServiceEntry, bool) {
	p := strings.Split(ev, ":")
	ski := c17SKIs[p[1]]
	txt := map[string]string{"txtvers": "1", "id": "id-" + p[1], "path": "/ship/", "ski": ski, "register": "false", "brand": "b"}
	e := &fakezeroconf.ServiceEntry{ServiceRecord: fakezeroconf.ServiceRecord{Instance: "inst-" + p[1]}, HostName: p[1] + ".local.", Port: 4711}
	remove := false
	switch p[0] {
	case "add":
		for _, an := range strings.Split(p[2], "+") {
			ip := net.ParseIP(c17Addrs[an])
			if ip.To4() != nil {
				e.AddrIPv4 = append(e.AddrIPv4, ip)
			} else {
				e.AddrIPv6 = append(e.AddrIPv6, ip)
			}
		}
	case "rm":
		remove = true
	case "bad":
		e.AddrIPv4 = []net.IP{net.ParseIP("10.0.0.9")}
		switch p[2] {
		case "txtvers2":
			txt["txtvers"] = "2"
		case "noid":
			delete(txt, "id")
		case "nopath":
			delete(txt, "path")
		case "noski":
			delete(txt, "ski")
		case "noregister":
			delete(txt, "register")
		case "registermaybe":
			txt["register"] = "maybe"
		}
	}
	var ks []string
	for k := range txt {
		ks = append(ks, k)
	}
	sort.Strings(ks)
	for _, k := range ks {
		e.Text = append(e.Text, k+"="+txt[k])
	}
	return e, remove
}

// reference model: ski -> ordered set of usable addresses
type refModel map[string][]string

func (m refModel) apply(ev string) {
	p := strings.Split(ev, ":")
	ski := c17SKIs[p[1]]
	switch p[0] {
	case "add":
		if ski == localSKI {
			return
		}
		cur, ok := m[ski]
		if !ok {
			cur = []string{}
		}
		for _, an := range strings.Split(p[2], "+") {
			ip := net.ParseIP(c17Addrs[an])
			usable := !(ip.To4() == nil && ip.IsLinkLocalUnicast())
			if usable {
				dup := false
				for _, a := range cur {
					if a == ip.String() {
						dup = true
					}
				}
				if !dup {
					cur = append(cur, ip.String())
				}
			}
		}
		m[ski] = cur
	case "rm":
		delete(m, ski)
	}
}

func (m refModel) String() string {
	var ks []string
	for k := range m {
		ks = append(ks, k)
	}
	sort.Strings(ks)
	var sb strings.Builder
	for _, k := range ks {
		as := append([]string(nil), m[k]...)
		sort.Strings(as)
		fmt.Fprintf(&sb, "%s=%v;", k[:4], as)
	}
	return sb.String()
}

func entriesString(es map[string]*api.MdnsEntry) string {
	var ks []string
	for k := range es {
		ks = append(ks, k)
	}
	sort.Strings(ks)
	var sb strings.Builder
	for _, k := range ks {
		var as []string
		for _, a := range es[k].Addresses {
			as = append(as, a.String())
		}
		sort.Strings(as)
		if as == nil {
			as = []string{}
		}
		fmt.Fprintf(&sb, "%s=%v;", k[:4], as)
		if es[k].Ski != k {
			fmt.Fprintf(&sb, "!ski-mismatch(%s);", es[k].Ski)
		}
	}
	return sb.String()
}

func c17Build(thorough bool) func(hist []string) hx.GView {
	events := c17Events(thorough)
	return func(hist []string) hx.GView {
		simrt.ClearTraceHooks()
		m := mdns.NewMDNS(localSKI, "b", "m", "t", "s", nil, "me", "svc-me", 4700, nil, mdns.MdnsProviderSelectionGoZeroConfOnly)
		r := &rec{name: "m", scribble: true}
		_ = m.Start(r)
		simrt.Quiesce()
		ref := refModel{}
		for i, ev := range hist {
			e, rm := c17Entry(ev)
			fakezeroconf.TheEther().Inject(e, rm)
			simrt.Quiesce()
			ref.apply(ev)
			if i == len(hist)-1 {
				n0 := len(r.reports)
				m.RequestMdnsEntries()
				simrt.Quiesce()
				if len(r.reports) == n0 {
					simrt.Fail("C17|no-report", "RequestMdnsEntries produced no report")
				} else if got := entriesString(r.last()); got != ref.String() {
					simrt.Fail("C17|set-mismatch|"+strings.Split(ev, ":")[0], "after %v the manager knows %s, the history says %s", hist, got, ref.String())
				}
			}
		}
		return hx.GView{Key: ref.String() + "|" + entriesKey(m), Enabled: events, Obs: ref.String()}
	}
}

func entriesKey(m *mdns.MdnsManager) string {
	f, ok := hx.Field(m, "entries")
	if !ok {
		return "?"
	}
	es, _ := f.Interface().(map[string]*api.MdnsEntry)
	return entriesString(es)
}

// ---- S part: the asynchronous reports of a burst of events, all delivery orders ----

func c17BurstBody(evs []string, viaHub bool) func() {
	return func() {
		simrt.ClearTraceHooks()
		var lastSet func() string
		var n *hubx.Node
		var r *rec
		var m *mdns.MdnsManager
		if viaHub {
			n = hubx.NewNode("A", 0, 4711)
			// the node's manager uses the node's certificate SKI as local SKI
			n.Start()
			simrt.RunFor(0)
			lastSet = func() string {
				if len(n.App.Visible) == 0 {
					return ""
				}
				var ks []string
				for _, e := range n.App.Visible[len(n.App.Visible)-1] {
					ks = append(ks, e.Ski[:4])
				}
				sort.Strings(ks)
				return strings.Join(ks, ",")
			}
		} else {
			m = mdns.NewMDNS(localSKI, "b", "m", "t", "s", nil, "me", "svc-me", 4700, nil, mdns.MdnsProviderSelectionGoZeroConfOnly)
			r = &rec{name: "m", scribble: true}
			_ = m.Start(r)
			lastSet = func() string { return entriesString(r.last()) }
		}
		simrt.Quiesce()
		simrt.Mark()
		ref := refModel{}
		for _, ev := range evs {
			e, rm := c17Entry(ev)
			fakezeroconf.TheEther().Inject(e, rm)
			ref.apply(ev)
		}
		simrt.Quiesce()
		want := ref.String()
		if viaHub {
			var ks []string
			for k := range ref {
				ks = append(ks, k[:4])
			}
			sort.Strings(ks)
			want = strings.Join(ks, ",")
		}
		// the resolver events themselves may be processed in any order (separate deliveries); the oracle only
		// applies when the manager's own final set equals the reference (it always does for order-insensitive bursts)
		finalOwn := ""
		if m != nil {
			finalOwn = entriesKey(m)
		}
		if got := lastSet(); got != want && (m == nil || finalOwn == ref.String()) {
			simrt.Fail("C17|last-report-stale", "mDNS activity stopped with the set %s but the last list delivered to the application is %s (events %v)", want, got, evs)
		}
		simrt.Outcome(lastSet())
	}
}

// c17RequestBody: the hub asks for the current entries (RequestMdnsEntries, on a goroutine of its own) while the
// resolver delivers an event; when everything is quiet the last delivered list must be the final set.
func c17RequestBody(evs []string) func() {
	return func() {
		simrt.ClearTraceHooks()
		m := mdns.NewMDNS(localSKI, "b", "m", "t", "s", nil, "me", "svc-me", 4700, nil, mdns.MdnsProviderSelectionGoZeroConfOnly)
		r := &rec{name: "m", scribble: true}
		_ = m.Start(r)
		simrt.Quiesce()
		ref := refModel{}
		e0, _ := c17Entry("add:S2:a1")
		fakezeroconf.TheEther().Inject(e0, false)
		ref.apply("add:S2:a1")
		simrt.Quiesce()
		simrt.Mark()
		simrt.Go("hub-request", func() { m.RequestMdnsEntries() })
		for _, ev := range evs {
			e, rm := c17Entry(ev)
			fakezeroconf.TheEther().Inject(e, rm)
			ref.apply(ev)
		}
		simrt.Quiesce()
		if got, want := entriesString(r.last()), ref.String(); got != want && entriesKey(m) == want {
			simrt.Fail("C17|last-report-stale", "mDNS activity stopped with the set %s but the last list delivered to the application is %s (a RequestMdnsEntries call overlapped the events %v)", want, got, evs)
		}
		simrt.Outcome(entriesString(r.last()))
	}
}

func c17Scenarios(r *hx.Run) []hx.Scenario {
	// bursts whose final set does not depend on the processing order of the events
	bursts := [][]string{
		{"add:S1:a1", "add:S2:a1"},
		{"add:S1:a1", "add:S1:a2"},
		{"add:S1:a1", "add:S2:a1", "add:S1:a2"},
		{"add:S1:a1", "add:S2:a2", "bad:S1:txtvers2"},
	}
	if r.Thorough() {
		bursts = append(bursts, []string{"add:S1:a1", "add:S2:a1", "add:S1:a2", "add:S2:a2"}, []string{"add:S1:a1", "add:S1:g6", "add:S2:a1", "add:S1:ll"})
	}
	var out []hx.Scenario
	for _, b := range bursts {
		for _, viaHub := range []bool{false, true} {
			name := fmt.Sprintf("c17:burst:%s:hub=%v", strings.Join(b, ","), viaHub)
			out = append(out, hx.Scenario{Name: name, Body: c17BurstBody(b, viaHub), Bounds: simrt.B(1, 0, 0),
				Cfg: simrt.Config{MaxSteps: 200000, BranchAfterMark: true, BranchOnly: []string{"eportMdnsEntries", "mdns.deliver", "chanListener"}}})
		}
	}
	for _, evs := range [][]string{{"add:S1:a1"}, {"rm:S2"}, {"add:S2:a2"}} {
		out = append(out, hx.Scenario{Name: "c17:request-vs-event:" + strings.Join(evs, ","), Body: c17RequestBody(evs), Bounds: simrt.B(1, 0, 0),
			Cfg: simrt.Config{MaxSteps: 200000, BranchAfterMark: true, BranchOnly: []string{"hub-request", "eportMdnsEntries", "mdns.deliver", "chanListener"}}})
	}
	return out
}

func c17Main(r *hx.Run) {
	depth := 4
	if r.Thorough() {
		depth = 5
	}
	ms := []hx.GModel{{Name: "manager", Build: c17Build(r.Thorough()), MaxDepth: depth, MaxStates: 500000}}
	scens := c17Scenarios(r)
	if r.Worker {
		if hx.WorkerMode() == "s" {
			hx.SWorker(scens)
		} else {
			hx.GWorker(ms)
		}
		return
	}
	if r.ReplayIn != "" {
		if strings.Contains(hx.ReadFile(r.ReplayIn), "\"scenario\"") {
			hx.MaybeReplay(r, scens)
		}
		hx.GMaybeReplay(r, ms)
	}
	gs := hx.GExploreAll(r, ms)
	viol := hx.GConfirm(gs, ms)
	hx.SetWorkerMode("s")
	r.EnsureBudget(60 * time.Second)
	ss := hx.ExploreAll(r, scens, false, 0)
	viol = append(viol, hx.ConfirmViolations(ss, scens)...)
	cov := gs.Coverage()
	cov["histories_depth_bound"] = depth
	cov["events"] = len(c17Events(r.Thorough()))
	sc := ss.Coverage()
	cov["burst_scenarios"] = len(scens)
	cov["burst_executions"] = sc["executions"]
	cov["burst_completed_deviation_bound"] = sc["completed_deviation_bound"]
	cov["burst_outcomes"] = sc["outcomes"]
	cov["exhaustive"] = cov["exhaustive"].(bool) && sc["exhaustive"].(bool)
	r.Finish(hx.Result{Level: "model_checking", Coverage: cov,
		Assumptions: []string{"real MdnsManager + ZeroconfProvider (listener goroutine, parseTxt, processMdnsEntry) over the fake zeroconf ether; resolver events are injected as zeroconf service entries",
			"G part: one event at a time, run to quiescence; S part: bursts of events without pauses, all orders of the report goroutines plus one preemption"},
		Violations: viol})
}
