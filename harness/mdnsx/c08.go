package main

import (
	"fmt"
	"net"
	"sort"
	"strconv"
	"strings"

	"github.com/enbility/ship-go/api"
	"github.com/enbility/ship-go/mdns"
	"github.com/enbility/ship-go/zzverif/fakeavahi"
	"github.com/enbility/ship-go/zzverif/fakezeroconf"
	"github.com/enbility/ship-go/zzverif/hx"
	"github.com/enbility/ship-go/zzverif/simrt"
)

// C08 (mDNS inputs): no TXT record, host name, address list or port a remote party can announce makes the
// resolver path panic or wedge the listener, through both providers.

var mandatory = []string{"txtvers", "id", "path", "ski", "register"}
var optionalKeys = []string{"brand", "type", "model", "serial", "cat"}

type mdnsInput struct {
	txt    []string
	host   string
	v4, v6 []net.IP
	port   int
	remove bool
}

func (m mdnsInput) String() string {
	return fmt.Sprintf("txt=%q host=%q v4=%v v6=%v port=%d remove=%v", m.txt, m.host, m.v4, m.v6, m.port, m.remove)
}

func mdnsInputs(thorough bool) []mdnsInput {
	var out []mdnsInput
	valid := map[string]string{"txtvers": "1", "id": "peer", "path": "/ship/", "ski": "cafe", "register": "false"}
	// all subsets of the mandatory keys
	for mask := 0; mask < 32; mask++ {
		var txt []string
		for i, k := range mandatory {
			if mask&(1<<i) != 0 {
				txt = append(txt, k+"="+valid[k])
			}
		}
		out = append(out, mdnsInput{txt: txt, host: "h.local", v4: []net.IP{net.ParseIP("10.0.0.1")}, port: 4711})
		out = append(out, mdnsInput{txt: txt, host: "h.local", port: -1, remove: true})
	}
	full := func(over map[string]string, extra ...string) []string {
		var txt []string
		for _, k := range mandatory {
			v := valid[k]
			if o, ok := over[k]; ok {
				v = o
			}
			txt = append(txt, k+"="+v)
		}
		return append(txt, extra...)
	}
	vals := []string{"", "1", "2", "true", "false", "x", "a=b", "1,,x,99999999999", strings.Repeat("z", 300), "\x00", "é"}
	for _, k := range append(append([]string{}, mandatory...), optionalKeys...) {
		for _, v := range vals {
			if contains(mandatory, k) {
				out = append(out, mdnsInput{txt: full(map[string]string{k: v}), host: "h.local", v4: []net.IP{net.ParseIP("10.0.0.1")}, port: 4711})
			} else {
				out = append(out, mdnsInput{txt: full(nil, k+"="+v), host: "h.local", v4: []net.IP{net.ParseIP("10.0.0.1")}, port: 4711})
			}
		}
	}
	// malformed txt items
	for _, item := range []string{"", "=", "novalue", "a=b=c", "=x", "ski", "ski=", "cat=,", "cat=-1", "cat=4294967296"} {
		out = append(out, mdnsInput{txt: full(nil, item), host: "h.local", v4: []net.IP{net.ParseIP("10.0.0.1")}, port: 4711})
		out = append(out, mdnsInput{txt: []string{item}, host: "", port: 0})
	}
	// hosts, addresses, ports
	addrSets := [][2][]net.IP{
		{nil, nil}, {{nil}, nil}, {{net.IPv4zero}, nil}, {{net.IP{1, 2, 3}}, nil}, {{net.IP{1, 2, 3, 4}}, {net.ParseIP("fe80::1")}},
		{nil, {net.ParseIP("2001:db8::1"), nil}}, {{net.ParseIP("10.0.0.1"), net.ParseIP("10.0.0.1")}, {net.IP{}}},
		// several link-local addresses (all of them are filtered out) in every position
		{nil, {net.ParseIP("fe80::1"), net.ParseIP("fe80::2")}}, {{net.ParseIP("10.0.0.1")}, {net.ParseIP("fe80::1"), net.ParseIP("fe80::2")}},
		{nil, {net.ParseIP("fe80::1"), net.ParseIP("2001:db8::1"), net.ParseIP("fe80::2")}}, {nil, {net.ParseIP("fe80::1"), net.ParseIP("fe80::2"), net.ParseIP("fe80::3")}},
		{nil, {net.ParseIP("2001:db8::1"), net.ParseIP("fe80::1"), net.ParseIP("fe80::2"), net.ParseIP("2001:db8::2")}},
	}
	for _, host := range []string{"", "h.local", strings.Repeat("h", 300)} {
		for _, as := range addrSets {
			for _, port := range []int{-1, 0, 4711, 70000} {
				for _, rm := range []bool{false, true} {
					if !thorough && (port == 70000 || len(host) > 10) && rm {
						continue
					}
					out = append(out, mdnsInput{txt: full(nil), host: host, v4: as[0], v6: as[1], port: port, remove: rm})
				}
			}
		}
	}
	out = append(out, mdnsInput{txt: nil, host: "h", port: 1}, mdnsInput{txt: []string{}, host: "h", port: 1, remove: true})
	return out
}

func contains(xs []string, x string) bool {
	for _, y := range xs {
		if y == x {
			return true
		}
	}
	return false
}

// c08mRun: args = provider (zeroconf|avahi), index range a b
func c08mRun(args []string) (string, [][2]string) {
	provider := args[0]
	a, _ := strconv.Atoi(args[1])
	b, _ := strconv.Atoi(args[2])
	ins := mdnsInputs(args[3] == "1")
	var fails [][2]string
	obsSet := map[string]bool{}
	for i := a; i < b && i < len(ins); i++ {
		in := ins[i]
		x := simrt.Run(simrt.Config{MaxSteps: 100000}, nil, func() {
			simrt.ClearTraceHooks()
			sel := mdns.MdnsProviderSelectionGoZeroConfOnly
			if provider == "avahi" {
				fakeavahi.TheDaemon().Up()
				sel = mdns.MdnsProviderSelectionAvahiOnly
			}
			m := mdns.NewMDNS("me-ski", "b", "m", "t", "s", nil, "me", "svc", 4700, nil, sel)
			r := &rec{name: "m"}
			_ = m.Start(r)
			simrt.Quiesce()
			inject := func(in mdnsInput, name string) {
				if provider == "zeroconf" {
					e := &fakezeroconf.ServiceEntry{ServiceRecord: fakezeroconf.ServiceRecord{Instance: name}, HostName: in.host, Port: in.port, Text: in.txt, AddrIPv4: in.v4, AddrIPv6: in.v6}
					fakezeroconf.TheEther().Inject(e, in.remove)
					return
				}
				addr := ""
				if len(in.v4) > 0 && in.v4[0] != nil {
					addr = in.v4[0].String()
				} else if len(in.v6) > 0 && in.v6[0] != nil {
					addr = in.v6[0].String()
				} else if len(in.host) > 100 {
					addr = "::"
				} else if in.port == 0 {
					addr = "x"
				}
				var txt [][]byte
				for _, t := range in.txt {
					txt = append(txt, []byte(t))
				}
				p := in.port
				if p < 0 || p > 65535 {
					p = 0
				}
				svc := fakeavahi.Service{Interface: 1, Name: name, Type: "_ship._tcp", Domain: "local", Host: in.host, Address: addr, Port: uint16(p), Txt: txt}
				d := fakeavahi.TheDaemon()
				d.Resolvable = append(d.Resolvable, svc)
				d.Push(!in.remove, svc)
			}
			inject(in, "probe")
			simrt.Quiesce()
			// the listener must still work: a valid service announced afterwards becomes known
			ok := mdnsInput{txt: []string{"txtvers=1", "id=ok", "path=/ship/", "ski=0123", "register=true"}, host: "ok.local", v4: []net.IP{net.ParseIP("10.0.0.2")}, port: 4712}
			inject(ok, "okservice")
			simrt.Quiesce()
			m.RequestMdnsEntries()
			simrt.Quiesce()
			es := r.last()
			if es == nil || es["0123"] == nil {
				simrt.Fail("C08|mdns-listener-wedged|"+provider, "after the record %s a valid service announced afterwards is not picked up (the resolver path is stuck or dead)", in)
			}
			var ks []string
			for k := range es {
				ks = append(ks, k)
			}
			sort.Strings(ks)
			simrt.Outcome(strings.Join(ks, ","))
		})
		obsSet[x.Outcome] = true
		for _, f := range x.Failures {
			fails = append(fails, [2]string{f.Key, f.Msg + "\x01" + strconv.Itoa(i)})
		}
		if x.Panic != nil {
			fails = append(fails, [2]string{"panic|" + simrt.PanicKey(x.Panic), fmt.Sprintf("mDNS record %s via %s: %s\n%s\x01%d", in, provider, x.Panic.Value, x.Panic.Stack, i)})
		}
	}
	var os []string
	for o := range obsSet {
		os = append(os, o)
	}
	sort.Strings(os)
	return strings.Join(os, "|"), fails
}

func c08mMain(r *hx.Run) {
	if r.Worker {
		hx.EnumWorker(c08mRun)
		return
	}
	th := "0"
	if r.Thorough() {
		th = "1"
	}
	ins := mdnsInputs(r.Thorough())
	if r.ReplayIn != "" {
		var art struct {
			Key    string `json:"key"`
			Replay struct {
				Args []string `json:"args"`
			} `json:"replay"`
		}
		hx.ReadJSON(r.ReplayIn, &art)
		_, fails := c08mRun(art.Replay.Args)
		for _, f := range fails {
			fmt.Println(f[0], f[1])
			if f[0] == art.Key {
				fmt.Printf("VIOLATION property=%s replay=%s\n", r.ID, r.ReplayIn)
				hx.Exit(1)
			}
		}
		hx.Exit(0)
	}
	var tasks [][]string
	const chunk = 40
	for _, p := range []string{"zeroconf", "avahi"} {
		for a := 0; a < len(ins); a += chunk {
			tasks = append(tasks, []string{p, strconv.Itoa(a), strconv.Itoa(a + chunk), th})
		}
	}
	res := hx.EnumAll(r, tasks)
	found := map[string]hx.Violation{}
	distinct := map[string]bool{}
	for ti, rs := range res {
		for _, o := range strings.Split(rs.Obs, "|") {
			distinct[o] = true
		}
		for _, f := range rs.Fails {
			p := strings.SplitN(f, "\x00", 2)
			mi := strings.SplitN(p[1], "\x01", 2)
			if _, ok := found[p[0]]; !ok {
				idx, _ := strconv.Atoi(mi[1])
				found[p[0]] = hx.Violation{Key: p[0], Msg: mi[0], Replay: map[string]any{"args": []string{tasks[ti][0], strconv.Itoa(idx), strconv.Itoa(idx + 1), th}}}
			}
		}
	}
	var viol []hx.Violation
	for _, v := range found {
		viol = append(viol, v)
	}
	var samples []any
	for i := 0; i < len(ins); i += len(ins)/8 + 1 {
		samples = append(samples, ins[i].String())
	}
	n := 2 * len(ins)
	r.Finish(hx.Result{Level: "model_checking", Coverage: map[string]any{"states": n, "transitions": n, "traces_validated_against_impl": n, "evaluations": n, "distinct_nontrivial": len(distinct) + 2,
		"mdns_inputs": len(ins),
		"rule":        "mDNS level: every input (all subsets of the mandatory TXT keys, each key with 11 values, malformed items, host x address-set x port x remove combinations) through the real ZeroconfProvider listener and through the real AvahiProvider listener into MdnsManager.processMdnsEntry; afterwards a valid service must still be picked up",
		"samples":     samples, "exhaustive": true},
		Assumptions: []string{"fake zeroconf ether / fake Avahi daemon deliver the records unchanged"}, Violations: viol})
	_ = api.MdnsEntry{}
}
