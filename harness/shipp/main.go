// shipp: two real ShipConnections (client role and server role) joined by FIFO queues.
// C03: explicit-state search (timely and arbitrary timer modes) + bottom-SCC analysis of the kept graph
//      + schedule exploration of concurrent stimuli on one endpoint from every reachable state.
package main

import (
	"errors"
	"flag"
	"fmt"
	"os"
	"sort"
	"strings"
	"time"

	"github.com/enbility/ship-go/model"
	"github.com/enbility/ship-go/ship"
	"github.com/enbility/ship-go/zzverif/hx"
	"github.com/enbility/ship-go/zzverif/shipx"
	"github.com/enbility/ship-go/zzverif/simrt"
)

var prop = flag.String("prop", "C03", "C03")

type cfg struct {
	trust     string // paired | auto | approve | cancel | never
	srvAllow  bool   // server side AllowWaitingForTrust
	cliAllow  bool   // client side AllowWaitingForTrust
	ids       string // which side knows the peer's SHIP ID: none | client | server | both
	arbitrary bool   // timers may fire at any point
	cliCancel bool   // the client side's user may cancel while the client waits for the server's hello
	reapprove bool   // trust is there from the start and the server's user approves once more at any moment (registering a known service again)
	oddIDs    bool   // SHIP IDs with quote, brackets and a trailing backslash
}

func (c cfg) name() string {
	m := "timely"
	if c.arbitrary {
		m = "arbitrary"
	}
	n := fmt.Sprintf("%s/trust=%s/swait=%v/cwait=%v/ids=%s", m, c.trust, c.srvAllow, c.cliAllow, c.ids)
	if c.cliCancel {
		n += "/clicancel"
	}
	if c.reapprove {
		n += "/reapprove"
	}
	if c.oddIDs {
		n += "/oddids"
	}
	return n
}

// trust eventually given on every path (no user decision needed)?
func (c cfg) trusted() bool { return c.trust == "paired" || c.trust == "auto" }

type frame struct {
	data  []byte
	close bool
}

type end struct {
	name   string
	L      *shipx.Log
	W      *shipx.Writer
	P      *shipx.Provider
	C      *ship.ShipConnection
	inbox  [][]byte
	busy   bool
	out    []frame // frames in flight towards the peer (FIFO)
	told   bool    // transport loss was reported to this endpoint
	spawnGen map[int]uint64
}

type world struct {
	c        cfg
	cli, srv *end
	approved, cancelled bool
	approvedHow string // early (before the hello phase) | pending (while the request was pending) | late
	concurrent  bool   // stimuli were applied concurrently (a timer may have expired while a message was in flight)
	cliCancel   bool   // the user on the client side cancelled while the client was waiting for the server's hello
}

// the SHIP IDs of the two endpoints; a configuration with oddIDs uses identifiers that need care on the wire (SHIP IDs
// are arbitrary strings: quote, brackets, a backslash as the last character)
var cliID, srvID = "ship-client", "ship-server"

func setIDs(odd bool) {
	cliID, srvID = "ship-client", "ship-server"
	if odd {
		cliID, srvID = "cli\"[{ent}],\\", "[{\"srv\":[]}]\\"
	}
}

func newEnd(name string, server bool, p *shipx.Provider, localID, peerKnownID string) *end {
	e := &end{name: name, L: &shipx.Log{Name: name}, spawnGen: map[int]uint64{}}
	e.W = &shipx.Writer{L: e.L}
	p.L = e.L
	e.P = p
	role := ship.ShipRoleClient
	if server {
		role = ship.ShipRoleServer
	}
	e.W.OnWrite = func(m []byte) { e.out = append(e.out, frame{data: m}) }
	e.W.OnClose = func(int, string) { e.out = append(e.out, frame{close: true}) }
	e.C = ship.NewConnectionHandler(p, e.W, role, localID, "ski-of-peer-of-"+name, peerKnownID)
	simrt.Go("reader-"+name, func() {
		for {
			simrt.Block("reader-idle", func() bool { return len(e.inbox) > 0 })
			f := e.inbox[0]
			e.inbox = e.inbox[1:]
			e.busy = true
			e.C.HandleIncomingWebsocketMessage(f)
			e.busy = false
		}
	})
	return e
}

func (e *end) gen() uint64 {
	if f, ok := hx.Field(e.C, "handshakeTimerGeneration"); ok && f.CanUint() {
		return f.Uint()
	}
	return 0
}

func (e *end) state() model.ShipMessageExchangeState { s, _ := e.C.ShipHandshakeState(); return s }
func (e *end) complete() bool                        { return e.state() == model.SmeStateComplete }

func newWorld(c cfg) *world {
	simrt.ClearTraceHooks()
	w := &world{c: c}
	setIDs(c.oddIDs)
	sp := &shipx.Provider{Paired: c.trust == "paired", AutoAccept: c.trust == "auto", AllowWaiting: c.srvAllow}
	cp := &shipx.Provider{Paired: true, AllowWaiting: c.cliAllow}
	srvKnows, cliKnows := "", ""
	if c.ids == "server" || c.ids == "both" {
		srvKnows = cliID
	}
	if c.ids == "client" || c.ids == "both" {
		cliKnows = srvID
	}
	w.srv = newEnd("srv", true, sp, srvID, srvKnows)
	w.cli = newEnd("cli", false, cp, cliID, cliKnows)
	// attribute every handshake timer goroutine to the connection that armed it (entry trace hook of
	// setHandshakeTimer fires in the arming thread right before the spawn) and remember the generation
	var lastArm any
	simrt.OnTrace(func(name string, args []any) {
		if name == "ship.(*ShipConnection).setHandshakeTimer" && len(args) > 0 {
			lastArm = args[0]
		}
	})
	simrt.OnSpawn(func(id int, name string) {
		if strings.Contains(name, "setHandshakeTimer") {
			for _, e := range []*end{w.srv, w.cli} {
				if lastArm == any(e.C) {
					e.spawnGen[id] = e.gen()
				}
			}
		}
	})
	return w
}

func (w *world) peerOf(e *end) *end {
	if e == w.cli {
		return w.srv
	}
	return w.cli
}

// timers of the whole world in deterministic order, tagged with the endpoint they belong to
type wtimer struct {
	simrt.TimerInfo
	stale bool
}

func (w *world) timers() []wtimer {
	ts := simrt.Timers()
	var out []wtimer
	for _, t := range ts {
		wt := wtimer{TimerInfo: t}
		for _, th := range t.Waiters {
			// a handshake timer goroutine is stale if the generation it captured is no longer current
			for _, e := range []*end{w.srv, w.cli} {
				if g, ok := e.spawnGen[th]; ok && e.gen() != 0 && g != e.gen() {
					wt.stale = true
				}
			}
		}
		out = append(out, wt)
	}
	sort.SliceStable(out, func(i, j int) bool {
		if out[i].In != out[j].In {
			return out[i].In < out[j].In
		}
		if out[i].Label != out[j].Label {
			return out[i].Label < out[j].Label
		}
		return out[i].ID < out[j].ID
	})
	return out
}

func (w *world) deliverable(from *end) bool {
	to := w.peerOf(from)
	return len(from.out) > 0 && !to.busy && len(to.inbox) == 0
}

func (w *world) enabled() []string {
	var out []string
	anyDelivery := false
	for _, p := range []struct {
		n string
		e *end
	}{{"c2s", w.cli}, {"s2c", w.srv}} {
		if w.deliverable(p.e) {
			out = append(out, "D:"+p.n)
			anyDelivery = true
		}
	}
	if (w.c.trust == "approve" || w.c.reapprove) && !w.approved && !w.cancelled {
		out = append(out, "APPROVE")
	}
	// a pairing can only be cancelled while its request is pending
	if w.c.trust == "cancel" && !w.approved && !w.cancelled && w.srv.state() == model.SmeHelloStatePendingListen {
		out = append(out, "CANCEL")
	}
	// the user on the client side withdraws while the client waits for the server (whatever the server's user does)
	if w.c.cliCancel && !w.cancelled && w.cli.state() == model.SmeHelloStateReadyListen {
		out = append(out, "CCANCEL")
	}
	ts := w.timers()
	// arbitrary mode: a timer may fire while frames are still in flight, but at most 3 frames per
	// direction are ever delayed at once (bounds the otherwise infinite queues)
	if len(ts) > 0 && (!anyDelivery || (w.c.arbitrary && len(w.cli.out) <= 2 && len(w.srv.out) <= 2)) {
		for k, t := range ts {
			if t.In <= ts[0].In || t.In <= 0 {
				out = append(out, fmt.Sprintf("T%d", k))
			}
		}
	}
	return out
}

func (w *world) apply(ev string) {
	switch {
	case ev == "D:c2s" || ev == "D:s2c":
		from := w.cli
		if ev == "D:s2c" {
			from = w.srv
		}
		to := w.peerOf(from)
		f := from.out[0]
		from.out = from.out[1:]
		switch {
		case to.W.Closed:
			// the receiving side has closed its socket: the frame is lost
		case f.close:
			to.W.Closed = true
			to.W.ClosedErr = errors.New("websocket: close 4001")
			to.told = true
			to.L.Evs = append(to.L.Evs, shipx.Ev{T: simrt.Elapsed(), Kind: "peerclosed"})
			simrt.Go("pump-"+to.name, func() { to.C.ReportConnectionError(errors.New("websocket: close 4001")) })
		default:
			to.inbox = append(to.inbox, f.data)
		}
	case ev == "APPROVE":
		w.approved = true
		switch st := w.srv.state(); {
		case st == model.SmeHelloStatePendingListen:
			w.approvedHow = "pending"
		case st < model.SmeHelloState:
			w.approvedHow = "early"
		default:
			w.approvedHow = "late"
		}
		w.srv.P.Paired = true
		simrt.Go("user", func() { w.srv.C.ApprovePendingHandshake() })
	case ev == "CANCEL":
		w.cancelled = true
		simrt.Go("user", func() { w.srv.C.AbortPendingHandshake() })
	case ev == "CCANCEL":
		w.cancelled = true
		w.cliCancel = true
		simrt.Go("user", func() { w.cli.C.AbortPendingHandshake() })
	case strings.HasPrefix(ev, "T"):
		var k int
		fmt.Sscanf(ev[1:], "%d", &k)
		ts := w.timers()
		if k < len(ts) {
			simrt.FireTimer(ts[k].ID)
		}
	}
	simrt.Quiesce()
}

var snapper = hx.NewSnapper("ShipConnection.infoProvider", "ShipConnection.dataWriter", "ShipConnection.dataReader",
	"ShipConnection.handshakeTimerGeneration", "ShipConnection.handshakeTimerStopChan")

func (w *world) key() string {
	var sb strings.Builder
	for _, e := range []*end{w.cli, w.srv} {
		sb.WriteString(snapper.Snap(e.C))
		fmt.Fprintf(&sb, "|wclosed=%v|told=%v|busy=%v|in=%d|paired=%v|out=", e.W.Closed, e.told, e.busy, len(e.inbox), e.P.Paired)
		for _, f := range e.out {
			if f.close {
				sb.WriteString("<CLOSE>")
			} else {
				sb.WriteString(shipx.Describe(f.data) + ";")
			}
		}
		fmt.Fprintf(&sb, "|setup=%d|ids=%v||", e.P.SetupCount, e.P.ShipIDs)
	}
	seen := map[string]int{}
	for _, t := range w.timers() {
		in := t.In
		if in < 0 {
			in = 0
		}
		part := fmt.Sprintf("|tm(%s,%v,%v)", t.Label, in, t.stale)
		seen[part]++
		if seen[part] <= 2 {
			sb.WriteString(part)
		}
	}
	for _, th := range simrt.Threads() {
		if !th.Done && th.Name != "main" && !strings.HasPrefix(th.Name, "reader-") {
			part := fmt.Sprintf("|th(%s,%s)", th.Name, th.OpKind)
			seen[part]++
			if seen[part] <= 2 {
				sb.WriteString(part)
			}
		}
	}
	fmt.Fprintf(&sb, "|a=%v|c=%v|how=%s", w.approved, w.cancelled, w.approvedHow)
	return sb.String()
}

// resolution classes used by the graph analysis
func (w *world) class() string {
	cc, sc := w.cli.complete(), w.srv.complete()
	cend := w.cli.W.Closed
	send := w.srv.W.Closed
	switch {
	case cc && sc && !cend && !send:
		return "both-complete"
	case cend && send:
		return "both-ended"
	}
	// the message at the head of each direction is part of the class: the concurrent-stimulus part takes one
	// representative per class, and "which message is about to be delivered" decides what can race
	head := func(e *end) string {
		if len(e.out) == 0 {
			return "-"
		}
		if e.out[0].close {
			return "CLOSE"
		}
		d := shipx.Describe(e.out[0].data)
		if len(d) > 24 {
			d = d[:24]
		}
		return d
	}
	return fmt.Sprintf("open(c=%s,s=%s,cclosed=%v,sclosed=%v,a=%v,x=%v,qc=%s,qs=%s)", shipx.StateName(w.cli.state()), shipx.StateName(w.srv.state()), cend, send, w.approved, w.cancelled, head(w.cli), head(w.srv))
}

func (w *world) safety(ev string) {
	for _, e := range []*end{w.cli, w.srv} {
		if e.P.SetupCount > 1 {
			simrt.Fail("C03|setup-twice", "endpoint %s set up the remote device %d times (event %s)", e.name, e.P.SetupCount, ev)
		}
		want := srvID
		if e == w.srv {
			want = cliID
		}
		for _, id := range e.P.ShipIDs {
			if id != want {
				simrt.Fail("C03|wrong-ship-id", "endpoint %s learned SHIP ID %q, the peer's is %q", e.name, id, want)
			}
		}
		// an endpoint that gave up (its end was reported) has made its choice: it neither sets up the remote device
		// nor reports completion afterwards ("one side completed while the other gave up" includes one endpoint doing both)
		endedAt := -1
		for i, ev2 := range e.L.Evs {
			if ev2.Kind == "closed" && endedAt < 0 {
				endedAt = i
			}
			if endedAt >= 0 && i > endedAt && (ev2.Kind == "setup" || (ev2.Kind == "state" && ev2.N == int(model.SmeStateComplete))) {
				simrt.Fail("C03|completed-after-giving-up", "endpoint %s reported the end of the connection and afterwards %s (event %s)", e.name, ev2.String(), ev)
				break
			}
		}
		if e.complete() && e.P.SetupCount != 1 {
			simrt.Fail("C03|complete-without-setup", "endpoint %s is complete with %d setups", e.name, e.P.SetupCount)
		}
	}
	denied := w.c.trust == "never" && !w.c.srvAllow || w.c.trust == "cancel" && w.cancelled && !w.approved
	if w.c.trust == "never" || denied {
		// without trust on the server side neither side may ever complete
		if !w.srv.P.Paired && !w.srv.P.AutoAccept && (w.cli.complete() || w.srv.complete()) {
			simrt.Fail("C03|complete-without-trust", "an endpoint completed although the server side never trusted the client (cli=%s srv=%s)", shipx.StateName(w.cli.state()), shipx.StateName(w.srv.state()))
		}
	}
	if w.cancelled && (!w.approved || w.cliCancel) && (w.cli.complete() || w.srv.complete()) {
		simrt.Fail("C03|complete-after-cancel", "an endpoint completed although the user cancelled the pairing")
	}
	// while the user has not decided, both sides allow waiting for trust and every message is timely, nobody
	// gives up: the prolongation cycle keeps the request pending (statement: success whenever approval comes
	// "at any moment while pending" - so the request must stay pending until the user or a timer ends it)
	if (w.c.trust == "approve" || w.c.trust == "cancel" || w.c.trust == "never") && !w.c.arbitrary && !w.concurrent && w.c.srvAllow && w.c.cliAllow && !w.approved && !w.cancelled {
		if w.cli.W.Closed || w.srv.W.Closed {
			simrt.Fail("C03|gave-up-while-pending", "an endpoint gave up although the user has not decided yet, waiting for trust is allowed on both sides and all messages were timely (cli=%s srv=%s, event %s)",
				shipx.StateName(w.cli.state()), shipx.StateName(w.srv.state()), ev)
		}
	}
}

func build(c cfg) func(hist []string) hx.GView {
	return func(hist []string) hx.GView {
		w := newWorld(c)
		w.srv.C.Run()
		w.cli.C.Run()
		simrt.Quiesce()
		for _, ev := range hist {
			w.apply(ev)
		}
		last := ""
		if len(hist) > 0 {
			last = hist[len(hist)-1]
		}
		w.safety(last)
		en := w.enabled()
		return hx.GView{Key: w.key(), Enabled: en, Class: w.class(),
			Obs: fmt.Sprintf("cli=%s srv=%s", shipx.StateName(w.cli.state()), shipx.StateName(w.srv.state()))}
	}
}

func configs(r *hx.Run) []cfg {
	var out []cfg
	trusts := []string{"paired", "auto", "approve", "cancel", "never"}
	for _, arb := range []bool{false, true} {
		for _, tr := range trusts {
			for _, sa := range []bool{true, false} {
				for _, ca := range []bool{true, false} {
					for _, ids := range []string{"none", "both", "client", "server"} {
						if !r.Thorough() {
							// quick: the configurations that differ in behaviour the most
							if ids == "client" || ids == "server" {
								continue
							}
							if !ca && tr != "approve" {
								continue
							}
							if arb && (tr == "auto" || tr == "cancel") {
								continue
							}
						}
						if (tr == "paired" || tr == "auto") && !sa {
							continue // waiting is irrelevant when trust is there from the start
						}
						out = append(out, cfg{trust: tr, srvAllow: sa, cliAllow: ca, ids: ids, arbitrary: arb})
						// the same with a client-side user who may withdraw (timely mode, waiting allowed on both sides)
						if !arb && sa && ca && ids == "none" && (tr == "paired" || tr == "approve" || r.Thorough()) {
							out = append(out, cfg{trust: tr, srvAllow: sa, cliAllow: ca, ids: ids, arbitrary: arb, cliCancel: true})
						}
						// SHIP IDs that need care on the wire
						if !arb && sa && ca && (ids == "none" || ids == "both") && (tr == "paired" || tr == "approve" && r.Thorough()) {
							out = append(out, cfg{trust: tr, srvAllow: sa, cliAllow: ca, ids: ids, arbitrary: arb, oddIDs: true})
						}
						// trust from the start plus a redundant approval at any moment
						if sa && ca && ids == "none" && (tr == "paired" && !arb || (tr == "paired" || tr == "auto") && r.Thorough()) {
							out = append(out, cfg{trust: tr, srvAllow: sa, cliAllow: ca, ids: ids, arbitrary: arb, reapprove: true})
						}
					}
				}
			}
		}
	}
	return out
}

// ---- graph analysis: bottom strongly connected components ----

func analyse(name string, c cfg, g *hx.Graph, classes map[string]string, fails *[]hx.Violation, stats map[string]int) {
	n := len(g.Keys)
	// Tarjan
	index := make([]int, n)
	low := make([]int, n)
	on := make([]bool, n)
	comp := make([]int, n)
	for i := range index {
		index[i] = -1
		comp[i] = -1
	}
	var stack []int
	idx, nc := 0, 0
	type fr struct{ v, i int }
	for s := 0; s < n; s++ {
		if index[s] != -1 {
			continue
		}
		call := []fr{{s, 0}}
		index[s], low[s] = idx, idx
		idx++
		stack = append(stack, s)
		on[s] = true
		for len(call) > 0 {
			f := &call[len(call)-1]
			if f.i < len(g.Edges[f.v]) {
				to := g.Edges[f.v][f.i].To
				f.i++
				if index[to] == -1 {
					index[to], low[to] = idx, idx
					idx++
					stack = append(stack, to)
					on[to] = true
					call = append(call, fr{to, 0})
				} else if on[to] && index[to] < low[f.v] {
					low[f.v] = index[to]
				}
				continue
			}
			v := f.v
			call = call[:len(call)-1]
			if len(call) > 0 {
				p := call[len(call)-1].v
				if low[v] < low[p] {
					low[p] = low[v]
				}
			}
			if low[v] == index[v] {
				for {
					x := stack[len(stack)-1]
					stack = stack[:len(stack)-1]
					on[x] = false
					comp[x] = nc
					if x == v {
						break
					}
				}
				nc++
			}
		}
	}
	bottom := make([]bool, nc)
	for i := range bottom {
		bottom[i] = true
	}
	for v := 0; v < n; v++ {
		for _, e := range g.Edges[v] {
			if comp[e.To] != comp[v] {
				bottom[comp[v]] = false
			}
		}
	}
	stats["sccs"] += nc
	for v := 0; v < n; v++ {
		if !bottom[comp[v]] {
			continue
		}
		stats["bottom_states"]++
		cl := classes[g.Keys[v]]
		ok := false
		switch {
		case cl == "both-complete":
			// success is a legal resting point only if trust was given
			ok = c.trusted() || strings.Contains(g.Keys[v], "|a=true")
			if c.trust == "approve" {
				ok = strings.Contains(g.Keys[v], "|a=true")
			}
		case cl == "both-ended":
			// both gave up: legal unless trust was there from the start in timely mode (then they must succeed)
			cancelledBySomebody := strings.Contains(g.Keys[v], "|c=true")
			ok = !(c.trusted() && !c.arbitrary) || cancelledBySomebody
			if !cancelledBySomebody && c.trust == "approve" && !c.arbitrary && c.srvAllow && c.cliAllow && (strings.Contains(g.Keys[v], "|how=pending") || strings.Contains(g.Keys[v], "|how=early")) {
				// approved while pending and everything timely: must succeed
				ok = false
			}
		default:
			// unresolved resting point: only the prolongation cycle of a user who has not answered yet
			if (c.trust == "approve" || c.trust == "cancel") && strings.Contains(cl, "a=false,x=false") && len(g.Edges[v]) > 0 {
				ok = true
			}
			if c.trust == "never" && c.srvAllow && len(g.Edges[v]) > 0 && strings.Contains(cl, "HelloPendingListen") {
				ok = true // waiting for a user who never answers, while waiting is allowed, goes on forever
			}
		}
		if !ok {
			key := "C03|unresolved|" + c.trust + "|" + cl
			if cl == "both-ended" {
				key = "C03|gave-up-although-trusted|" + c.trust
			}
			if cl == "both-complete" {
				key = "C03|completed-without-trust|" + c.trust
			}
			*fails = append(*fails, hx.Violation{Key: key, Msg: fmt.Sprintf("[%s] the system can come to rest in %s (bottom component, %d outgoing events); history: %s", name, cl, len(g.Edges[v]), strings.Join(g.Hist[v], " ")),
				Replay: map[string]any{"model": name, "history": g.Hist[v]}})
		}
	}
}

func main() {
	r := hx.Init("")
	r.ID = *prop
	r.ReloadKnown()
	cfgs := configs(r)
	var ms []hx.GModel
	for _, c := range cfgs {
		ms = append(ms, hx.GModel{Name: c.name(), Build: build(c), KeepGraph: true, MaxStates: 300000})
	}
	if r.Worker {
		if isSWorker() {
			hx.SWorker(pairScenarios(r, nil))
			return
		}
		hx.GWorker(ms)
		return
	}
	hx.GMaybeReplay(r, ms)
	sum := hx.GExploreAll(r, ms)
	viol := hx.GConfirm(sum, ms)
	stats := map[string]int{}
	if !sum.Capped {
		for i, c := range cfgs {
			g := sum.Graphs[ms[i].Name]
			if g == nil {
				continue
			}
			var extra []hx.Violation
			analyse(ms[i].Name, c, g, sum.ClassOf, &extra, stats)
			// keep one violation per key (shortest history)
			for _, v := range extra {
				dup := false
				for j := range viol {
					if viol[j].Key == v.Key {
						dup = true
						if len(v.Msg) < len(viol[j].Msg) {
							viol[j] = v
						}
					}
				}
				if !dup {
					viol = append(viol, v)
				}
			}
		}
	}
	// S part
	specs := buildPairSpecs(r, cfgs, sum, ms)
	hx.WriteJSON(specFile, specs)
	r.EnsureBudget(60 * time.Second)
	hx.SetWorkerMode("s")
	scens := pairScenariosFromSpecs(cfgs, specs, pairBound(r))
	ss := hx.ExploreAll(r, scens, false, 0)
	for k := range ss.Found {
		if !strings.HasPrefix(k, "C03|") && !strings.HasPrefix(k, "panic|") && !hx.KeptKey(k) {
			delete(ss.Found, k)
		}
	}
	viol = append(viol, hx.ConfirmViolations(ss, scens)...)
	_ = os.Remove(specFile)
	cov := sum.Coverage()
	sc := ss.Coverage()
	cov["concurrent_stimulus_scenarios"] = len(scens)
	cov["concurrent_stimulus_executions"] = sc["executions"]
	cov["concurrent_stimulus_completed_bound"] = sc["completed_deviation_bound"]
	cov["concurrent_stimulus_outcomes"] = sc["outcomes"]
	cov["exhaustive"] = cov["exhaustive"].(bool) && sc["exhaustive"].(bool)
	cov["configurations"] = len(ms)
	cov["strongly_connected_components"] = stats["sccs"]
	cov["bottom_component_states"] = stats["bottom_states"]
	classCount := map[string]int{}
	for _, cl := range sum.ClassOf {
		if cl == "both-complete" || cl == "both-ended" {
			classCount[cl]++
		} else {
			classCount["unresolved"]++
		}
	}
	cov["states_by_resolution"] = classCount
	r.Finish(hx.Result{Level: "model_checking", Coverage: cov,
		Assumptions: []string{"FIFO, loss-free delivery while both sockets are open; a transport close travels behind the frames written before it",
			"handler-atomic transitions; timely mode: timers fire only when no delivery is possible, in deadline order; arbitrary mode: at any point",
			"liveness is judged on the finite state graph: every bottom strongly connected component must be resolved (fairness: an enabled delivery or timer eventually happens)"},
		Violations: viol})
	_ = time.Second
}

func isSWorker() bool { return hx.WorkerMode() == "s" }

// ---- S part: two stimuli hit one endpoint concurrently, from a representative of every class of state ----

type pairSpec struct {
	Model   int      `json:"m"`
	History []string `json:"h"`
	A, B    string   // stimuli
	Sab     string   `json:"sab"` // where the system comes to rest when A is applied and handled completely, then B
	Sba     string   `json:"sba"` // and the other way round (each computed in an execution of its own)
}

// the pair specifications are handed to the worker processes through a file of this run (name in the environment)
var specFile = func() string {
	if f := os.Getenv("VERIF_C03_SPECS"); f != "" {
		return f
	}
	f := fmt.Sprintf("/var/tmp/verif-c03-pairs.%d.json", os.Getpid())
	os.Setenv("VERIF_C03_SPECS", f)
	return f
}()

func stimuli(w *world) []string {
	var out []string
	if w.deliverable(w.cli) {
		out = append(out, "D:c2s")
	}
	if w.deliverable(w.srv) {
		out = append(out, "D:s2c")
	}
	ts := w.timers()
	for k, t := range ts {
		if k < 2 && !t.stale {
			out = append(out, fmt.Sprintf("T%d", k))
		}
	}
	if w.srv.state() == model.SmeHelloStatePendingListen {
		out = append(out, "APPROVE", "CANCEL")
	}
	return out
}

func (w *world) fire(ev string) {
	switch {
	case ev == "D:c2s" || ev == "D:s2c":
		from := w.cli
		if ev == "D:s2c" {
			from = w.srv
		}
		if len(from.out) == 0 {
			return
		}
		to := w.peerOf(from)
		f := from.out[0]
		from.out = from.out[1:]
		switch {
		case to.W.Closed:
		case f.close:
			to.W.Closed = true
			to.W.ClosedErr = errors.New("websocket: close 4001")
			to.told = true
			simrt.Go("pump-"+to.name, func() { to.C.ReportConnectionError(errors.New("websocket: close 4001")) })
		default:
			to.inbox = append(to.inbox, f.data)
		}
	case ev == "APPROVE":
		w.approved = true
		if w.srv.state() == model.SmeHelloStatePendingListen {
			w.approvedHow = "pending"
		} else {
			w.approvedHow = "late"
		}
		w.srv.P.Paired = true
		w.srv.C.ApprovePendingHandshake()
	case ev == "CANCEL":
		w.cancelled = true
		w.srv.C.AbortPendingHandshake()
	case strings.HasPrefix(ev, "T"):
		var k int
		fmt.Sscanf(ev[1:], "%d", &k)
		ts := w.timers()
		if k < len(ts) {
			simrt.FireTimer(ts[k].ID)
		}
	}
}

// settle runs a world to rest under the default schedule: deliver everything, let timers expire, a patient user.
func (w *world) settle(check bool) string {
	for round := 0; round < 60; round++ {
		progressed := false
		for _, e := range []*end{w.cli, w.srv} {
			for w.deliverable(e) {
				if e == w.cli {
					w.apply("D:c2s")
				} else {
					w.apply("D:s2c")
				}
				progressed = true
			}
		}
		if ts := w.timers(); len(ts) > 0 && !progressed {
			w.apply("T0")
			progressed = true
		}
		if check {
			w.safety("settle")
		}
		cl := w.class()
		if cl == "both-complete" || cl == "both-ended" {
			break
		}
		if !progressed {
			break
		}
	}
	return w.class()
}

// serialOutcome: the class the system comes to rest in when x is applied and handled completely, then y (if y is a
// timer that x stopped or replaced it does not fire). Runs on a world of its own, under the default schedule.
func serialOutcome(c cfg, hist []string, x, y string) string {
	w := newWorld(c)
	w.srv.C.Run()
	w.cli.C.Run()
	simrt.Quiesce()
	for _, ev := range hist {
		w.apply(ev)
	}
	// identify the timers before x runs (the ids are the same in every execution that replays this history)
	id := func(ev string) int {
		if strings.HasPrefix(ev, "T") {
			var k int
			fmt.Sscanf(ev[1:], "%d", &k)
			if ts := w.timers(); k < len(ts) {
				return ts[k].ID
			}
		}
		return -1
	}
	xid, yid := id(x), id(y)
	dbg := os.Getenv("VERIF_DEBUG") == x+"|"+y
	fire := func(ev string, tid int) {
		if dbg {
			fmt.Printf("DEBUG serial %s|%s: fire %s at %v class %s timers %v\n", x, y, ev, simrt.Elapsed(), w.class(), w.timers())
		}
		if strings.HasPrefix(ev, "T") {
			// a timer that was stopped or replaced meanwhile does not fire (its goroutine would find itself stale)
			for _, t := range w.timers() {
				if t.ID == tid && !t.stale {
					simrt.FireTimer(tid)
				}
			}
		} else {
			simrt.Go("stim-serial", func() { w.fire(ev) })
		}
		simrt.Quiesce()
	}
	fire(x, xid)
	fire(y, yid)
	return w.settle(false)
}

func pairBody(c cfg, hist []string, a, b, sab, sba string) func() {
	return func() {
		w := newWorld(c)
		w.srv.C.Run()
		w.cli.C.Run()
		simrt.Quiesce()
		for _, ev := range hist {
			w.apply(ev)
		}
		simrt.Mark()
		w.concurrent = true
		// the timers are identified before either stimulus runs (an index means another timer once the list has changed)
		resolve := func(ev string) func() {
			if strings.HasPrefix(ev, "T") {
				var k int
				fmt.Sscanf(ev[1:], "%d", &k)
				if ts := w.timers(); k < len(ts) {
					id := ts[k].ID
					return func() { simrt.FireTimer(id) }
				}
				return func() {}
			}
			return func() { w.fire(ev) }
		}
		fa, fb := resolve(a), resolve(b)
		simrt.Go("stim-a", fa)
		simrt.Go("stim-b", fb)
		simrt.Quiesce()
		simrt.Unmark()
		w.safety(a + "||" + b)
		w.settle(true)
		cl := w.class()
		resolved := cl == "both-complete" || cl == "both-ended"
		waitingForUser := (c.trust == "approve" || c.trust == "cancel" || c.trust == "never") && !w.approved && !w.cancelled && c.srvAllow
		if !resolved && !waitingForUser {
			simrt.Fail("C03|pair-unresolved|"+cl, "after %s and %s hit the endpoints concurrently (history %v) the two sides never agree: %s", a, b, hist, cl)
		}
		// the inputs of an endpoint are handled one at a time: the concurrent pair has to end like one of its two orders
		if sab == sba && (sab == "both-complete" || sab == "both-ended") && cl != sab {
			simrt.Fail("C03|pair-not-serialisable|"+sab+"->"+cl, "%s and %s hit the endpoints concurrently (history %v): applied one after the other, in either order, the system comes to rest in %s, applied at the same time in %s", a, b, hist, sab, cl)
		}
		simrt.Outcome(cl)
	}
}

func pairScenariosFromSpecs(cfgs []cfg, specs []pairSpec, pb int) []hx.Scenario {
	var out []hx.Scenario
	focus := []string{"stim-", "reader-", "setHandshakeTimer", "pump-", "CloseConnection", "handleState"}
	for i, sp := range specs {
		c := cfgs[sp.Model]
		out = append(out, hx.Scenario{Name: fmt.Sprintf("c03:pair:%d:%s:%s||%s@%s", i, c.name(), sp.A, sp.B, strings.Join(sp.History, ",")),
			Body: pairBody(c, sp.History, sp.A, sp.B, sp.Sab, sp.Sba), Bounds: simrt.B(pb, 0, 0),
			Cfg: simrt.Config{MaxSteps: 200000, BranchAfterMark: true, BranchOnly: focus}})
	}
	return out
}

func pairBound(r *hx.Run) int {
	if r.Thorough() {
		return 2
	}
	return 1
}

func pairScenarios(r *hx.Run, g map[string]*hx.Graph) []hx.Scenario {
	var specs []pairSpec
	hx.ReadJSON(specFile, &specs)
	return pairScenariosFromSpecs(configs(r), specs, pairBound(r))
}

// buildPairSpecs picks, for every class of state of every timely configuration, the shortest history and
// all unordered pairs of stimuli enabled there that hit the same endpoint or race across the link.
func buildPairSpecs(r *hx.Run, cfgs []cfg, sum *hx.GSummary, ms []hx.GModel) []pairSpec {
	var specs []pairSpec
	var keys []string
	for rk := range sum.Reps {
		keys = append(keys, rk)
	}
	sort.Strings(keys)
	for _, rk := range keys {
		mi := sum.RepModel[rk]
		c := cfgs[mi]
		if c.arbitrary || c.ids != "none" || (!r.Thorough() && !c.cliAllow) {
			continue
		}
		hist := sum.Reps[rk]
		var st []string
		simrt.Run(simrt.Config{}, nil, func() {
			w := newWorld(c)
			w.srv.C.Run()
			w.cli.C.Run()
			simrt.Quiesce()
			for _, ev := range hist {
				w.apply(ev)
			}
			st = stimuli(w)
		})
		for i := 0; i < len(st); i++ {
			for j := i + 1; j < len(st); j++ {
				sp := pairSpec{Model: mi, History: hist, A: st[i], B: st[j]}
				simrt.Run(simrt.Config{}, nil, func() { sp.Sab = serialOutcome(c, hist, sp.A, sp.B) })
				simrt.Run(simrt.Config{}, nil, func() { sp.Sba = serialOutcome(c, hist, sp.B, sp.A) })
				specs = append(specs, sp)
			}
		}
	}
	return specs
}
