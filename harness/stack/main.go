// stack: real ws.WebsocketConnection + real ship.ShipConnection over the fake socket, fake info provider.
// -prop C08: every websocket frame type / length in every handshake state (no panic, no wedged receive loop).
// -prop C06: two complete stacks exchange SPINE datagrams: exactly once, in order, only after completion.
package main

import (
	"flag"
	"fmt"
	"strconv"
	"strings"
	"time"

	"github.com/enbility/ship-go/api"
	"github.com/enbility/ship-go/ship"
	"github.com/enbility/ship-go/ws"
	"github.com/enbility/ship-go/zzverif/fakews"
	"github.com/enbility/ship-go/zzverif/hx"
	"github.com/enbility/ship-go/zzverif/shipx"
	"github.com/enbility/ship-go/zzverif/simrt"
)

var prop = flag.String("prop", "C08", "C08|C06|C20")
var only = flag.String("only", "", "ignored")

type stack struct {
	name string
	sock *fakews.Conn
	W    *ws.WebsocketConnection
	C    *ship.ShipConnection
	P    *shipx.Provider
	L    *shipx.Log
}

func newStack(name string, sock *fakews.Conn, server bool, paired bool, peerID string) *stack {
	l := &shipx.Log{Name: name}
	st := &stack{name: name, sock: sock, L: l, P: &shipx.Provider{L: l, Paired: paired, AllowWaiting: true}}
	st.W = ws.NewWebsocketConnection(sock, "ski-"+name)
	role := ship.ShipRoleClient
	if server {
		role = ship.ShipRoleServer
	}
	st.C = ship.NewConnectionHandler(st.P, st.W, role, "id-"+name, "ski-peer-of-"+name, peerID)
	return st
}

// ---- C08 (websocket level) ----

var srvMsgs = [][]byte{shipx.Init(), shipx.Hello("ready", 60000, 0), shipx.Prot("announceMax", 1, 0, `["JSON-UTF8"]`), shipx.Prot("select", 1, 0, `["JSON-UTF8"]`),
	shipx.Pin("none"), shipx.AccessRequest(), shipx.AccessMethods("peer")}
var cliMsgs = [][]byte{shipx.Init(), shipx.Hello("ready", 60000, 0), shipx.Prot("select", 1, 0, `["JSON-UTF8"]`), shipx.Pin("none"), shipx.AccessRequest(), shipx.AccessMethods("peer")}

type frameVar struct {
	name string
	f    fakews.Frame
}

func frameVariants() []frameVar {
	var out []frameVar
	lens := []int{0, 1, 2, 3, 1024, 1025, 70000}
	for _, t := range []int{fakews.TextMessage, fakews.BinaryMessage, fakews.PingMessage, fakews.PongMessage, 3} {
		for _, n := range lens {
			for _, kind := range []string{"x", "json"} {
				var data []byte
				switch kind {
				case "x":
					data = []byte(strings.Repeat("x", n))
				case "json":
					// looks like a SHIP control message with a long string
					if n < 4 {
						continue
					}
					data = append([]byte{1}, []byte(`{"a":"`+strings.Repeat("y", n-8)+`"}`)...)
					if n < 9 {
						continue
					}
				}
				out = append(out, frameVar{fmt.Sprintf("type=%d,len=%d,%s", t, n, kind), fakews.Frame{Type: t, Data: data}})
			}
		}
	}
	for _, code := range []int{-1, 1000, 1001, 4001, 4452, 4500} {
		d := []byte{}
		if code >= 0 {
			d = fakews.FormatCloseMessage(code, "reason")
		}
		out = append(out, frameVar{fmt.Sprintf("close,code=%d", code), fakews.Frame{Type: fakews.CloseMessage, Data: d}})
	}
	out = append(out, frameVar{"close,1-byte-payload", fakews.Frame{Type: fakews.CloseMessage, Data: []byte{3}}})
	return out
}

// stallProbes: SHIP-level messages a peer sends after it stopped reading (the local write pump is then stuck
// inside a transport write until the write deadline)
func stallProbes() []frameVar {
	mk := func(n string, d []byte) frameVar { return frameVar{"stalled-peer," + n, fakews.Frame{Type: fakews.BinaryMessage, Data: d}} }
	return []frameVar{mk("close-announce", shipx.CloseMsg("announce")), mk("close-confirm", shipx.CloseMsg("confirm")), mk("junk", []byte{1, 'x'}),
		mk("bad-init", []byte{0, 1}), mk("hello-abort", shipx.Hello("aborted", -1, 0)), mk("prot-error", shipx.ProtError(2)), mk("data", shipx.Data(shipx.Datagram(1))),
		{"stalled-peer,ws-close", fakews.Frame{Type: fakews.CloseMessage, Data: fakews.FormatCloseMessage(4001, "x")}}, {"stalled-peer,ws-text", fakews.Frame{Type: fakews.TextMessage, Data: []byte("xx")}}}
}

// args: role(server|client), k (number of valid messages first; -1 = completed and closing), variant index, [stall]
func c08Run(args []string) (string, [][2]string) {
	server := args[0] == "server"
	k, _ := strconv.Atoi(args[1])
	vi, _ := strconv.Atoi(args[2])
	stall := len(args) > 3 && args[3] == "stall"
	var fv frameVar
	if stall {
		fv = stallProbes()[vi]
	} else {
		fv = frameVariants()[vi]
	}
	var fails [][2]string
	obs := ""
	x := simrt.Run(simrt.Config{MaxSteps: 200000}, nil, func() {
		simrt.ClearTraceHooks()
		a, b := fakews.Pipe("local", "peer")
		st := newStack("s", a, server, true, "")
		// the send buffer fills with the next SHIP message the write pump sends (a close frame written into an
		// empty buffer does not block)
		stallNow := func() { a.StallWrites = func(f fakews.Frame) bool { return f.Type == fakews.BinaryMessage } }
		if stall && k == 0 {
			stallNow()
		}
		st.C.Run()
		simrt.RunFor(5 * time.Millisecond)
		msgs := cliMsgs
		if server {
			msgs = srvMsgs
		}
		n := k
		if k < 0 {
			n = len(msgs)
		}
		for i := 0; i < n && i < len(msgs); i++ {
			if stall && k > 0 && i == n-1 {
				stallNow() // the peer stops reading: the answer to this message gets stuck in the write pump
			}
			a.Inject(fakews.Frame{Type: fakews.BinaryMessage, Data: msgs[i]})
			simrt.RunFor(5 * time.Millisecond)
		}
		if k < 0 {
			if stall {
				stallNow()
			}
			simrt.Go("user", func() { st.C.CloseConnection(true, 0, "bye") })
			simrt.RunFor(5 * time.Millisecond)
		}
		stBefore, _ := st.C.ShipHandshakeState()
		a.Inject(fv.f)
		if stall {
			simrt.RunFor(100 * time.Second) // beyond the write deadline and the pong wait
		} else {
			simrt.RunFor(3 * time.Second)
		}
		// a valid frame afterwards must still be processed or the connection be closed
		stAfter, _ := st.C.ShipHandshakeState()
		closed, _ := st.W.IsDataConnectionClosed()
		for _, t := range simrt.Threads() {
			if strings.Contains(t.Name, "readShipPump") && !t.Done {
				if !(t.OpKind == "block" && strings.HasPrefix(t.OpObj, "ws.Read")) {
					fails = append(fails, [2]string{"C08|read-pump-wedged", fmt.Sprintf("after frame %s in state %s the read pump is blocked in %s %s", fv.name, shipx.StateName(stBefore), t.OpKind, t.OpObj)})
				}
			}
			if strings.Contains(t.Name, "readShipPump") && t.Done && a.CloseCalls == 0 {
				fails = append(fails, [2]string{"C08|read-pump-gone-socket-open", fmt.Sprintf("after frame %s in state %s the read pump has terminated but the socket was never closed", fv.name, shipx.StateName(stBefore))})
			}
		}
		obs = fmt.Sprintf("%s -> %s closed=%v", shipx.StateName(stBefore), shipx.StateName(stAfter), closed)
		_ = b
	})
	if x.Panic != nil {
		fails = append(fails, [2]string{"panic|" + simrt.PanicKey(x.Panic), fmt.Sprintf("frame %s, role server=%v, after %d valid messages: %s\n%s", fv.name, server, k, x.Panic.Value, x.Panic.Stack)})
	}
	if x.Truncated {
		fails = append(fails, [2]string{"C08|livelock", fmt.Sprintf("frame %s: the execution did not settle within the step limit", fv.name)})
	}
	return obs, fails
}

func c08Main(r *hx.Run) {
	if r.Worker {
		hx.EnumWorker(c08Run)
		return
	}
	var tasks [][]string
	nv := len(frameVariants())
	for _, role := range []string{"server", "client"} {
		max := len(srvMsgs)
		if role == "client" {
			max = len(cliMsgs)
		}
		for k := -1; k <= max; k++ {
			for v := 0; v < nv; v++ {
				tasks = append(tasks, []string{role, strconv.Itoa(k), strconv.Itoa(v)})
			}
			for v := range stallProbes() {
				tasks = append(tasks, []string{role, strconv.Itoa(k), strconv.Itoa(v), "stall"})
			}
		}
	}
	if r.ReplayIn != "" {
		var art struct {
			Key    string `json:"key"`
			Replay struct {
				Args []string `json:"args"`
			} `json:"replay"`
		}
		hx.ReadJSON(r.ReplayIn, &art)
		obs, fails := c08Run(art.Replay.Args)
		fmt.Println(obs)
		for _, f := range fails {
			fmt.Println(f[0], f[1])
			if f[0] == art.Key {
				fmt.Printf("VIOLATION property=%s replay=%s\n", r.ID, r.ReplayIn)
				hx.Exit(1)
			}
		}
		hx.Exit(0)
	}
	res := hx.EnumAll(r, tasks)
	seen := map[string]bool{}
	distinct := map[string]bool{}
	var viol []hx.Violation
	var samples []any
	for i, rs := range res {
		distinct[rs.Obs] = true
		if i%211 == 0 {
			if len(tasks[i]) == 3 {
				samples = append(samples, strings.Join(tasks[i], " ")+": "+frameVariants()[atoi(tasks[i][2])].name+" => "+rs.Obs)
			} else {
				samples = append(samples, strings.Join(tasks[i], " ")+": "+stallProbes()[atoi(tasks[i][2])].name+" => "+rs.Obs)
			}
		}
		for _, f := range rs.Fails {
			p := strings.SplitN(f, "\x00", 2)
			if !seen[p[0]] {
				seen[p[0]] = true
				viol = append(viol, hx.Violation{Key: p[0], Msg: p[1], Replay: map[string]any{"args": tasks[i]}})
			}
		}
	}
	r.Finish(hx.Result{Level: "model_checking", Coverage: map[string]any{"states": len(tasks), "transitions": len(tasks), "traces_validated_against_impl": len(tasks),
		"evaluations": len(tasks), "distinct_nontrivial": len(distinct), "frame_variants": nv, "stalled_peer_probes": len(stallProbes()),
		"rule":    "websocket level: role x handshake state (after 0..n valid messages, and completed+closing) x frame variant (5 opcodes x 7 payload lengths x 2 contents, 7 close frames); each case is one execution of the real read pump + SHIP connection over the fake socket to a 3 s horizon; plus role x state x 9 SHIP / websocket messages sent by a peer that has stopped reading (the local write pump is stuck in a transport write until its write deadline), 100 s horizon",
		"samples": samples, "exhaustive": true},
		Assumptions: []string{"fakews hands every frame, whatever its opcode and length, to ReadMessage the way gorilla/websocket does (control frames handled inside, unknown opcodes are a read error)"},
		Violations:  viol})
}

func atoi(s string) int { n, _ := strconv.Atoi(s); return n }

// ---- C06 (two stacks exchange datagrams) ----

type sent struct {
	payload      string
	begin, end   int
	writer       int
}

func c06Body(nPer int, twoWriters bool, early bool, stallFor ...time.Duration) func() {
	return func() {
		simrt.ClearTraceHooks()
		fakews.SetLatency(time.Millisecond)
		a, b := fakews.Pipe("cli", "srv")
		if len(stallFor) > 0 && stallFor[0] > 0 {
			// back pressure: both transports take no data for a while, beginning with the first SPINE frame, and resume well
			// before the write deadline; the connections stay open, so nothing may be lost
			for _, sock := range []*fakews.Conn{a, b} {
				sock := sock
				first, began := true, false
				sock.StallWrites = func(f fakews.Frame) bool {
					if f.Type == fakews.BinaryMessage && len(f.Data) > 0 && f.Data[0] == 2 && first {
						first, began = false, true
						return true
					}
					return false
				}
				simrt.Go("backpressure-"+sock.Name, func() {
					simrt.Block("stall-began", func() bool { return began })
					over := false
					simrt.NewTimer(stallFor[0], 0, "backpressure-over", func() { over = true })
					simrt.Block("stall-over", func() bool { return over })
					sock.Unstall()
				})
			}
		}
		cli := newStack("cli", a, false, true, "")
		srv := newStack("srv", b, true, true, "")
		seq := 0
		tick := func() int { seq++; return seq }
		sentBy := map[string][]*sent{}
		setupAt := map[string]int{}
		// hook: poll for the writer handed to SetupRemoteDevice from a watcher thread per side
		for _, me := range []*stack{cli, srv} {
			me := me
			simrt.Go("app-"+me.name, func() {
				simrt.Block("wait-setup-"+me.name, func() bool { return me.P.Writer != nil })
				simrt.Touch("order")
				setupAt[me.name] = tick()
				writers := 1
				if twoWriters {
					writers = 2
				}
				for wi := 0; wi < writers; wi++ {
					wi := wi
					simrt.Go(fmt.Sprintf("writer-%s-%d", me.name, wi), func() {
						for j := 0; j < nPer; j++ {
							p := fmt.Sprintf(`{"datagram":{"from":"%s","w":%d,"n":%d}}`, me.name, wi, j)
							if j%2 == 1 {
								// a payload whose datagram is not the first member of the object
								p = fmt.Sprintf(`{"trace":"t","datagram":{"from":"%s","w":%d,"n":%d}}`, me.name, wi, j)
							}
							s := &sent{payload: p, writer: wi}
							simrt.Touch("order")
							s.begin = tick()
							me.P.Writer.WriteShipMessageWithPayload([]byte(p))
							simrt.Touch("order")
							s.end = tick()
							sentBy[me.name] = append(sentBy[me.name], s)
						}
					})
				}
			})
		}
		simrt.Mark()
		srv.C.Run()
		cli.C.Run()
		if early {
			// a datagram that reaches the server before its own handshake is over
			b.Inject(fakews.Frame{Type: fakews.BinaryMessage, Data: shipx.Data(shipx.Datagram(77))})
		}
		simrt.RunFor(5 * time.Second)
		// ---- oracle ----
		check := func(from, to *stack) {
			var got []string
			firstPayloadIdx, setupIdx := -1, -1
			for i, e := range to.L.Evs {
				if e.Kind == "payload" {
					if firstPayloadIdx < 0 {
						firstPayloadIdx = i
					}
					got = append(got, e.Arg)
				}
				if e.Kind == "setup" && setupIdx < 0 {
					setupIdx = i
				}
			}
			if firstPayloadIdx >= 0 && (setupIdx < 0 || firstPayloadIdx < setupIdx) {
				simrt.Fail("C06|payload-before-setup", "%s received a payload before its remote device was set up", to.name)
			}
			want := sentBy[from.name]
			if early && to == srv {
				if len(got) == 0 || norm(got[0]) != norm(shipx.DatagramPlain(77)) {
					simrt.Fail("C06|early-datagram-lost", "the datagram that arrived before completion was not delivered first after completion (got %v)", got)
				} else {
					got = got[1:]
				}
			}
			closed, _ := to.W.IsDataConnectionClosed()
			if len(got) != len(want) && !closed {
				simrt.Fail("C06|lost-or-duplicated", "%s -> %s: %d datagrams written, %d delivered (connection open)", from.name, to.name, len(want), len(got))
			}
			pos := map[string]int{}
			for i, g := range got {
				if _, dup := pos[norm(g)]; dup {
					simrt.Fail("C06|duplicated", "%s -> %s: %s delivered twice", from.name, to.name, g)
				}
				pos[norm(g)] = i
				known := false
				for _, w := range want {
					if norm(w.payload) == norm(g) {
						known = true
					}
				}
				if !known {
					simrt.Fail("C06|content", "%s -> %s: delivered %s was never written", from.name, to.name, g)
				}
			}
			for _, x := range want {
				for _, y := range want {
					if x == y {
						continue
					}
					px, okx := pos[norm(x.payload)]
					py, oky := pos[norm(y.payload)]
					if x.end < y.begin && okx && oky && px > py {
						simrt.Fail("C06|reordered", "%s -> %s: %s was written (and returned) before %s but delivered after it", from.name, to.name, x.payload, y.payload)
					}
				}
			}
		}
		check(cli, srv)
		check(srv, cli)
		cs, _ := cli.C.ShipHandshakeState()
		ss, _ := srv.C.ShipHandshakeState()
		simrt.Outcome(fmt.Sprintf("cli=%s srv=%s c2s=%d s2c=%d", shipx.StateName(cs), shipx.StateName(ss), srv.P.SetupCount, cli.P.SetupCount))
	}
}

func norm(s string) string { return strings.Join(strings.Fields(s), "") }

// c06BurstBody: one stack facing a peer that sends SPINE data early: nEarly datagrams arrive before the stack's
// own handshake is over, the last handshake message and nLate more datagrams arrive back to back (all of them
// are in the socket buffer before the read pump gets to the first).
func c06BurstBody(server bool, nEarly, nLate int) func() {
	return func() {
		simrt.ClearTraceHooks()
		a, _ := fakews.Pipe("local", "peer")
		st := newStack("s", a, server, true, "")
		st.C.Run()
		simrt.RunFor(5 * time.Millisecond)
		msgs := cliMsgs
		if server {
			msgs = srvMsgs
		}
		for _, m := range msgs[:len(msgs)-1] {
			a.Inject(fakews.Frame{Type: fakews.BinaryMessage, Data: m})
			simrt.RunFor(5 * time.Millisecond)
		}
		n := 0
		for i := 0; i < nEarly; i++ {
			n++
			a.Inject(fakews.Frame{Type: fakews.BinaryMessage, Data: shipx.Data(shipx.Datagram(n))})
			simrt.RunFor(5 * time.Millisecond)
		}
		simrt.Mark()
		a.Inject(fakews.Frame{Type: fakews.BinaryMessage, Data: msgs[len(msgs)-1]})
		for i := 0; i < nLate; i++ {
			n++
			a.Inject(fakews.Frame{Type: fakews.BinaryMessage, Data: shipx.Data(shipx.Datagram(n))})
		}
		simrt.RunFor(time.Second)
		var got []string
		complete := false
		for _, e := range st.L.Evs {
			if e.Kind == "state" && e.N == 38 {
				complete = true
			}
			if e.Kind == "payload" {
				if !complete {
					simrt.Fail("C06|delivered-before-completion", "a payload reached the application before the handshake was reported complete")
				}
				got = append(got, e.Arg)
			}
		}
		if stt, _ := st.C.ShipHandshakeState(); uint(stt) != 38 {
			simrt.Outcome(fmt.Sprintf("not completed (%s)", shipx.StateName(stt)))
			return
		}
		if len(got) != n {
			simrt.Fail("C06|lost-or-duplicated", "%d datagrams arrived (%d before completion), %d were delivered: %v", n, nEarly, len(got), got)
		}
		for i, g := range got {
			if i < n && norm(g) != norm(shipx.DatagramPlain(i+1)) {
				simrt.Fail("C06|reordered", "datagram #%d delivered is %s; arrival order was 1..%d with %d of them before completion (delivered: %v)", i+1, g, n, nEarly, got)
				break
			}
		}
		simrt.Outcome(fmt.Sprintf("delivered=%d", len(got)))
	}
}

func c06Scenarios(r *hx.Run) []hx.Scenario {
	var out []hx.Scenario
	for _, server := range []bool{true, false} {
		for _, ne := range []int{0, 1, 2} {
			for _, nl := range []int{1, 2} {
				if !r.Thorough() && ne == 0 && nl == 2 {
					continue
				}
				bpb := 1
				if r.Thorough() {
					bpb = 2
				}
				out = append(out, hx.Scenario{Name: fmt.Sprintf("c06:burst:server=%v,early=%d,late=%d", server, ne, nl), Body: c06BurstBody(server, ne, nl),
					Bounds: simrt.B(bpb, 0, 0), Cfg: simrt.Config{MaxSteps: 100000, BranchAfterMark: true}})
			}
		}
	}
	// many datagrams held back (the peer completed long before this side did): none of them may be dropped
	for _, server := range []bool{true, false} {
		for _, ne := range []int{20, 70} {
			if !r.Thorough() && (ne == 70 || !server) {
				continue
			}
			out = append(out, hx.Scenario{Name: fmt.Sprintf("c06:burst:server=%v,early=%d,late=2", server, ne), Body: c06BurstBody(server, ne, 2),
				Bounds: simrt.B(0, 0, 0), Cfg: simrt.Config{MaxSteps: 100000, BranchAfterMark: true}})
		}
	}
	// transports that take no data for 1.5 s (3 s) while four datagrams are written in each direction
	for _, d := range []time.Duration{1500 * time.Millisecond, 3 * time.Second} {
		if d > 2*time.Second && !r.Thorough() {
			continue
		}
		for _, two := range []bool{false, true} {
			out = append(out, hx.Scenario{Name: fmt.Sprintf("c06:backpressure=%v,n=4,twoWriters=%v", d, two), Body: c06Body(4, two, false, d),
				Bounds: simrt.B(0, 0, 0), Cfg: simrt.Config{MaxSteps: 200000, BranchAfterMark: true, BranchOnly: []string{"writer-"}}})
		}
	}
	pb := 1
	if r.Thorough() {
		pb = 2
	}
	focus := []string{"writer-", "app-", "readShipPump", "writeShipPump"}
	for _, n := range []int{1, 2, 3} {
		for _, two := range []bool{false, true} {
			for _, early := range []bool{false, true} {
				if n == 3 && (two || !r.Thorough()) {
					continue
				}
				out = append(out, hx.Scenario{Name: fmt.Sprintf("c06:n=%d,twoWriters=%v,early=%v", n, two, early), Body: c06Body(n, two, early),
					Bounds: simrt.Bounds{Preempt: pb, Total: pb}, Cfg: simrt.Config{MaxSteps: 200000, BranchAfterMark: true, BranchOnly: focus, DelayBounding: true}})
			}
		}
	}
	return out
}

func c06Main(r *hx.Run) {
	scens := c06Scenarios(r)
	if *prop == "C20" {
		// the same executions in the access build with the race detector on: the application's writers, both pumps and the
		// handshake goroutines of two complete stacks (the frame bytes handed to the socket included)
		var rs []hx.Scenario
		for _, sc := range scens {
			if strings.HasPrefix(sc.Name, "c06:n=") {
				body := sc.Body
				sc.Name = "c20stack:" + strings.TrimPrefix(sc.Name, "c06:")
				sc.Cfg.Races = true
				sc.Body = func() {
					body()
					for _, rc := range simrt.Races() {
						simrt.Fail("C20|"+rc.Key(), "data race on %s (%s): %s at %s  vs  %s at %s", rc.Loc, rc.KindAB, rc.A, rc.SiteA, rc.B, rc.SiteB)
					}
				}
				rs = append(rs, sc)
			}
		}
		scens = rs
	}
	if r.Worker {
		hx.SWorker(scens)
		return
	}
	hx.MaybeReplay(r, scens)
	sum := hx.ExploreAll(r, scens, true, 0)
	if sum.Diverged > 0 {
		hx.EngineError("replay divergence: %s", sum.FirstDiv)
	}
	if *prop == "C20" {
		for k := range sum.Found {
			if !strings.HasPrefix(k, "C20|") && !strings.HasPrefix(k, "panic|") && !hx.KeptKey(k) {
				delete(sum.Found, k)
			}
		}
	}
	viol := hx.ConfirmViolations(sum, scens)
	cov := sum.Coverage()
	var names []any
	for _, s := range scens {
		names = append(names, s.Name)
	}
	cov["samples"] = names
	r.Finish(hx.Result{Level: "model_checking", Coverage: cov,
		Assumptions: []string{"two complete stacks (real ShipConnection + real WebsocketConnection with both pumps and the write queue) over the fake socket with 1 ms latency; delay bound on application writers and pumps after set-up"},
		Violations:  viol})
}

var _ api.ShipConnectionDataWriterInterface

func main() {
	r := hx.Init("")
	r.ID = *prop
	r.ReloadKnown()
	switch *prop {
	case "C08":
		c08Main(r)
	case "C06", "C20":
		c06Main(r)
	default:
		hx.EngineError("unknown -prop")
	}
}
