#!/usr/bin/env python3
"""Generates /verif/MANIFEST.json from the table below (keeps it valid at all times)."""
import json, subprocess
props=[json.loads(l) for l in open('/verif/properties.jsonl')]
ids=[p['id'] for p in props]
C={}  # id -> dict(level, text, note, technique, design_ref)
C['C14']=dict(level='model_checking',
  text='Exhaustive preemption-bounded exploration (bound 2 quick / 3 thorough, happens-before state caching) of all arm/stop/re-arm sequences (length <=3/4, with and without virtual-time gaps), 2-3 concurrent connections and every prefix of the valid handshake paths, executed on the real ShipConnection code under a controlled scheduler with virtual time; a monitor fed by entry/exit trace hooks checks every delivered timeout against the latest armed, un-stopped timer.',
  note='simrt models Go mutex/channel/select/timer semantics; scheduling points at synchronisation operations only; virtual time (timely mode); vinstr rewrites a scratch copy of /repo mechanically.',
  technique='stateless schedule exploration (controlled scheduler, iterative preemption bounding) of the implementation',
  design_ref='4/C14')
C['C12']=dict(level='model_checking',
  text='Exhaustive preemption-bounded exploration (bound 2 quick / 3 thorough) of 1-3 concurrent writers (1-2 writes each) against every closing event (local close with/without reason, peer close frame, abrupt EOF, failing transport write, link cut), with and without a stalled transport write (full outgoing queue), on the real ws.WebsocketConnection and its two pumps over a fake socket; oracle: every write returns, no panic, error once closed, and the frames the peer received form a gap-free, duplicate-free prefix consistent with the call/return order of the accepted writes.',
  note='fakews models the gorilla/websocket behaviour ship-go relies on (control frames inside ReadMessage, permanent read errors, ErrCloseSent, concurrent-writer panic); simrt scheduling points at sync/channel/socket operations; happens-before state caching.',
  technique='stateless schedule exploration (controlled scheduler, iterative preemption bounding) of the implementation',
  design_ref='4/C12')
C['C13']=dict(level='fault_enumeration',
  text='A transport fault is injected at the k-th read and the k-th write for every k of a session with traffic in both directions (data writes and the 50 s ping included), peer close frames with six codes, abrupt EOF, local close with/without reason and an idle session, each explored under all schedules within the preemption bound (1 quick / 2 thorough) on the real ws.WebsocketConnection up to a 130 s virtual horizon; oracle: error reported (non-nil) and closed-query (true, non-nil) for transport loss, no error report for a deliberate local close, nothing delivered after the end, both pumps terminated, socket Close() called.',
  note='fault model: a failing read/write cuts the link in both directions; read/write deadlines on virtual time; fakews as for C12.',
  technique='fault enumeration x stateless schedule exploration of the implementation under a controlled scheduler',
  design_ref='4/C13')
C['C07']=dict(level='exploration',
  text='Bounded-exhaustive enumeration of all JSON documents with a top-level object up to 6 (quick) / 7 (thorough) nodes over a structural alphabet and up to 4 / 5 nodes over a 21-scalar alphabet that contains one representative per textual shortcut in the code (bracket sequences in strings and member names, escapes, empty containers, numbers beyond float64); each document is pushed through the real JsonIntoEEBUSJson / JsonFromEEBUSJson and compared with a reference transformer (shape), with itself after the round trip (member order, number literals, string contents) and after the data-envelope splice as the receiver parses it. Failures are classified by repair-and-recheck into structural cause classes.',
  note='un-instrumented: built directly against /repo; small-scope hypothesis over the stated alphabet; duplicate member names and invalid UTF-8 excluded.',
  technique='bounded-exhaustive input enumeration against a reference model (no sampling)',
  design_ref='4/C07', engine='direct')
G="Explicit-state breadth-first search to fixpoint whose transition function is the real code: a state is the shortest event history reaching it, replayed on a fresh ShipConnection under the controlled scheduler; states are deduplicated by a reflection snapshot of every ShipConnection field plus armed virtual timers, live goroutines and the monitor's ghost variables"
GNOTE='handler-atomic transitions (one stimulus run to quiescence); message alphabet with one representative per handler branch, each message at most twice per history; timers fire in deadline order; fake transport and info provider; concurrency between stimuli is covered by C03/C14.'
C['C04']=dict(level='model_checking',
  text='%s. Events: every message of the alphabet (well-formed, ill-formed, out of phase), timer expiry, transport-down flag and error report, user approve/cancel/close, application write, and a write failure injected at every single transport write of every transition. Monitors on every transition: each reported state change is an edge of the SHIP 13.4 state graph written out as a table in the harness; after the first terminal outcome no progress state, no send other than the closing exchange, no setup, handshake timer not running, transport closed once no close delay is pending. 4 configurations quick (core alphabet), 5 thorough (full alphabet).' % G,
  note=GNOTE, technique='explicit-state model checking of the implementation (BFS by replay over real handlers) with single-fault enumeration', design_ref='4/C04')
C['C09']=dict(level='model_checking',
  text='%s. Both roles x stored SHIP ID {none, "A"}; alphabet: the valid prefix plus access-methods request and replies with id A, B, empty, absent, number, null, in every order and state. Monitors: with a stored id the remote device is set up only if the last presented id equals it; an unknown id is reported exactly once, with the presented value, strictly before setup; never when the id was known.' % G,
  note=GNOTE+' The hub half (stored id reaches every new connection) is covered by the two-hub harness.', technique='explicit-state model checking of the implementation (BFS by replay over real handlers)', design_ref='4/C09')
C['C01']=dict(level='model_checking',
  text='%s. Server role with trust in {none, paired, auto-accept} x waiting allowed or not, plus client role; the harness is the adversarial peer, the transport and the user (approve/cancel/close). Monitor: hello-ok only while trust is present, setup/complete/payload only after a legitimate hello-ok, payload only after setup, complete only after setup.' % G,
  note=GNOTE+' Ship level: the trust answers come from a fake info provider; the hub bookkeeping behind them is exercised by the two-hub harnesses.', technique='explicit-state model checking of the implementation (BFS by replay over real handlers)', design_ref='4/C01')
C['C06']=dict(level='model_checking',
  text='%s. SPINE data frames are offered in every reachable state before and after completion (at most two, both orders) together with the rest of the alphabet. Monitor: the payloads handed to the reader equal the arrived datagrams in arrival order, none before SetupRemoteDevice, none lost or duplicated while the connection is open.' % G,
  note=GNOTE+' Covers the buffering/flush half at the ship level; ordering through the write queue and pumps of two connected endpoints is covered by the pair harness.', technique='explicit-state model checking of the implementation (BFS by replay over real handlers)', design_ref='4/C06')
C['C08']=dict(level='model_checking',
  text='%s. Every alphabet message is delivered in every reachable state (both roles, trusted and pending); in addition 4490 systematic malformed inputs (every single structured mutation of each valid SHIP message: node deleted / replaced by 14 values incl. "[ ]", header byte variants, truncations, stray zero bytes, whitespace at token boundaries; all byte strings of length <= 3 over a 14-symbol alphabet) are delivered in one representative of every distinct (handshake state, transport state). Oracle: no panic in any goroutine, the receive loop returns (only a bounded close delay may be pending), post-state legal.' % G,
  note=GNOTE+' Ship level only so far (websocket frame level and mDNS inputs are separate harnesses).', technique='explicit-state model checking of the implementation (BFS by replay) plus exhaustive enumeration of a finite mutation set in every distinct state', design_ref='4/C08')
C['C03']=dict(level='model_checking',
  text='Explicit-state breadth-first search to fixpoint over two real ShipConnections (client and server role) joined by FIFO queues in which a transport close travels behind the frames written before it. 34 configurations quick / 128 thorough: server trust {paired, auto-accept, user approves at any moment, user cancels while pending, never answers} x waiting allowed on either side x SHIP ID known on {neither, both, client, server} x timer mode {timely: timers only when no delivery is possible; arbitrary: any armed timer at any point, at most 3 frames per direction delayed}. Safety on every transition (setup at most once per endpoint, learned SHIP ID is the peer's, no completion without/after-cancel of trust); liveness on the kept state graph: Tarjan SCC, every bottom component must be resolved (both complete on an open transport, or both ended), success is mandatory in timely mode when trust was given beforehand or while pending; only the prolongation cycle of a user who has not answered is excused.',
  note=GNOTE+' Intra-endpoint interleavings of concurrent stimuli are explored by the C14 schedule exploration and (hub level) the two-hub harnesses.', technique='explicit-state model checking of the implementation (two endpoints, BFS by replay) + SCC analysis of the state graph', design_ref='4/C03')
na={}
checks=[]
for i in ids:
    if i in C:
        c=C[i]
        checks.append(dict(property_id=i, quick_cmd=f'./bin/vcheck {i} --tier quick', thorough_cmd=f'./bin/vcheck {i} --tier thorough',
            evidence_file=f'/verif/evidence/{i}.json', replay_cmd_template=f'./bin/vcheck {i} --replay {{path}}', engine=c.get('engine','simrt+vinstr'),
            level_claimed=dict(category=c['level'], text=c['text'], design_ref='DESIGN.md section '+c['design_ref']),
            level_note=c['note'], technique=c['technique']))
    else:
        na[i]='check not built yet (work in progress)'
m=dict(version=1, setup_cmd='./bin/setup.sh',
  hooks=dict(guard='verif', enable='checks instrument a scratch copy of /repo (tools/vinstr rewrites sync/time/go/chan/select and library boundaries to the simrt runtime), add harness-only files tagged //go:build verif to that copy and build it with -tags verif; /repo itself carries no hooks',
     baseline_off_cmd='cd /repo && GOFLAGS=-mod=mod GOPROXY=off GOSUMDB=off GOTOOLCHAIN=local go test -vet=off -count=1 -timeout 25m ./...', source_commits=[], add_only=True),
  engines=[dict(name='simrt+vinstr', path='/verif/rt/simrt, /verif/tools/vinstr', serves_properties=sorted(C), kind_free_text='hand-written model checker for Go: source instrumenter + cooperative controlled scheduler with virtual time, fault choice points, stateless DFS with iterative deviation bounding and happens-before state caching; explicit-state BFS by replay over real handlers')],
  checks=checks,
  not_applicable=[dict(property_id=k, reason=v) for k,v in na.items()],
  notes='see DESIGN.md; known findings and fixed defects in known_findings.json')
json.dump(m, open('/verif/MANIFEST.json','w'), indent=1)
print('checks:',len(checks),'na:',len(na))
