#!/usr/bin/env python3
"""Generates /verif/MANIFEST.json from tools/checks.json (claimed checks) and tools/na.json (reasons for the rest)."""
import json, os
props=[json.loads(l) for l in open('/verif/properties.jsonl')]
ids=[p['id'] for p in props]
C=json.load(open('/verif/tools/checks.json'))
NA=json.load(open('/verif/tools/na.json')) if os.path.exists('/verif/tools/na.json') else {}
checks=[]; na=[]
for i in ids:
    if i in C:
        c=C[i]
        checks.append(dict(property_id=i, quick_cmd=f'./bin/vcheck {i} --tier quick', thorough_cmd=f'./bin/vcheck {i} --tier thorough',
            evidence_file=f'/verif/evidence/{i}.json', replay_cmd_template=f'./bin/vcheck {i} --replay {{path}}', engine=c.get('engine','simrt+vinstr'),
            level_claimed=dict(category=c['level'], text=c['text'], design_ref='DESIGN.md section '+c['design_ref']),
            level_note=c['note'], technique=c['technique']))
    else:
        na.append(dict(property_id=i, reason=NA.get(i,'check not built yet (work in progress)')))
m=dict(version=1, setup_cmd='./bin/setup.sh',
  hooks=dict(guard='verif', enable='checks instrument a scratch copy of /repo (tools/vinstr rewrites sync/time/go/chan/select and library boundaries to the simrt runtime), add harness-only files tagged //go:build verif to that copy and build it with -tags verif; /repo itself carries no hooks',
     baseline_off_cmd='cd /repo && GOFLAGS=-mod=mod GOPROXY=off GOSUMDB=off GOTOOLCHAIN=local go test -vet=off -count=1 -timeout 25m ./...', source_commits=[], add_only=True),
  engines=[dict(name='simrt+vinstr', path='/verif/rt/simrt, /verif/tools/vinstr', serves_properties=sorted(k for k in C if C[k].get('engine','simrt+vinstr')=='simrt+vinstr'), kind_free_text='hand-written model checker for Go: source instrumenter + cooperative controlled scheduler with virtual time, fault choice points, stateless DFS with iterative deviation bounding and happens-before state caching; explicit-state BFS by replay over real handlers'),
           dict(name='direct', path='/verif/direct', serves_properties=sorted(k for k in C if C[k].get('engine')=='direct'), kind_free_text='bounded-exhaustive enumerators built directly against /repo (no instrumentation)')],
  checks=checks, not_applicable=na,
  notes='see DESIGN.md; known findings and fixed defects in known_findings.json')
json.dump(m, open('/verif/MANIFEST.json','w'), indent=1)
print('checks:',len(checks),'na:',len(na))
