import json,re
rows={
"C01":("shipg + hubs","G + S, G + S","ship level: BFS to fixpoint over 5 [8] configurations (server x trust x waiting, client), core [full] alphabet, user approve/cancel/close, transport events; user-decision races and timer/message/error-report/close input races (S, bound 1 [2]). Hub level: adversarial websocket client with a never trusted certificate against a real hub, 20 events, depth 5 [8] from four seed states; registration withdrawn while the hub dials; power cycle, then unregister"),
"C02":("direct/c02 + certx","E + S","real TLS/websocket sessions: certificate variants (chains, forged SKIs, forged after genuine, scalar-injected keys) x TLS versions x sub-protocol offers inbound, variant x dialled SKI outbound; concurrent validations of forged / genuine certificates with a scheduling point at every logged access (bound 2 [3])"),
"C03":("shipp","G + SCC + S","two endpoints, 39 [~134] configurations (two [four] with SHIP IDs that need care on the wire) x {timely, arbitrary}; every bottom SCC resolved; invariant 'nobody gives up while the user is undecided'; concurrent stimulus pairs from a representative of every state class (bound 1 [2]) with a serialisability oracle"),
"C04":("shipg","G + S","BFS to fixpoint, 4 [5] configurations, single write fault at every write of every transition, SHIP 13.4 edge table as oracle, finality after terminal states and after the closed report; 128 [153] schedule scenarios (user races, input races)"),
"C05":("hubs","S","72 [~140] two-hub scenarios (SKI order x start order x registration time incl. cancel-then-register and register-on-accept x disturbances incl. outage, one-way reachability, restarts, power cycles, second mDNS implementation), delay bound 1/2 [2/3], back-off choices"),
"C06":("shipg + stack","G + S","data frames offered in every reachable state, both roles; two complete stacks exchanging datagrams under schedule exploration (bound 1 [2]); bursts of up to 20 [70] early datagrams; datagram not the first member; back pressure of 1.5 s [3 s] on both transports"),
"C07":("direct/c07","E","JSON documents over structural, scalar and member-name alphabets, reference transformer, history oracle (probe conversions after every document), repair-and-recheck classification"),
"C08":("shipg + stack + mdnsx + wsx","G + probes + E + S","BFS over the full alphabet + systematic malformed inputs in one representative of each of 60 (state, transport) classes; websocket level: role x state x 57 frame variants + stalled-peer probes; mDNS level: TXT / host / address / port inputs through both providers; peer-caused closures against 1-3 concurrent senders"),
"C09":("shipg + hubs","G + E + S","both roles x stored id {none, A, quoted/bracketed}, eight presented-id forms in every order; hub half: 72 two-hub runs (who dials x stored ids x reconnect, first connection failing while pending) and the application storing an ID while the SKI is first looked up elsewhere"),
"C10":("hubs","G + S","three nodes, 15 events, depth 4 [6] from five seed states, withdrawing operations in label spelling; user operation while an outbound connection is being established (bound 1 [2])"),
"C11":("hubs (two harnesses)","S + G","10 close causes + graceful closes on a stalled path with a full queue, 9 [45] pairs, mid-handshake, pending-trust connections, local close vs transport failure, reconnection, power cycle with accounting; foreign (non ship-go) trusted peer: 10 events of 60 ms, depth 7 [9], both SKI orders"),
"C12":("wsx","S","1-3 writers x 6 closing events x stalled queue, preemption bound 1-2 [2-3]; writers that hold the lock the consumer's error report takes (non-local closures)"),
"C13":("wsx","S x faults","k-th read / k-th write fault for k<=4, six close codes, EOF, local closes, idle; soft write faults (receiving direction intact) with a late peer frame; closed-query while being told; bound 1 [2]"),
"C14":("c14 + shipg","S, G + S","all arm/stop sequences <=3 [4] with four gap patterns, 2 [3] connections, every prefix of five handshake paths, bound 2 [3]; answered-timer oracle; the C04 state search and schedule scenarios judged by the timer monitor"),
"C15":("hubs","E (metamorphic)","5 hub states x 6 operations x 6 spellings + two-operation sequences (+ fast variants)"),
"C16":("mdnsx","E + S","service configurations announced and read back through two real managers; reference QR parser; SetAutoAccept twice in a row under schedule exploration"),
"C17":("mdnsx","G + S","histories <=4 [5] over 21-25 resolver events (multi-address records, IPv4 link-local) against a reference model, receiver overwrites what it is handed; bursts, all report orders"),
"C18":("hubs","S","18 handshake runs (incl. registering an established peer again) x {tie orders, late wake-ups} restricted to the notification goroutines; user-operation-vs-connection-end races; two connections of one SKI reporting at once"),
"C19":("mdnsx","G + S","scriptable fake Avahi daemon faithful to go-avahi's Shutdown, histories to fixpoint over 10 events incl. D-Bus-only and restart, browse probe in every state; eleven race scenarios, bound 2 [3]"),
"C20":("hubs + wsx + stack (access build)","S + HB","vector-clock race analysis (struct fields, maps, slice elements, package-level variables, frame bytes) on 30 hub scenarios (delay bound 0-1 [1-2]), 8 websocket-level scenarios at two [three] preemptions, 8 two-stack scenarios"),
}
def nums(ev):
    c=ev['coverage']; out=[]
    for k,lab in [('states','states'),('executions','executions'),('evaluations','evaluations'),('documents','documents'),('cases','cases'),('user_race_executions','schedule executions'),('concurrent_stimulus_executions','pair executions'),('burst_executions','burst executions'),('race_executions','race executions')]:
        v=c.get(k)
        if isinstance(v,int) and v>0: out.append(f"{v:,} {lab}".replace(',',' '))
    return ', '.join(out[:4])
lines=["| id | harness(es) | shape | what is enumerated (quick; thorough in brackets) | quick tier covered | evidence level |","|----|---------|-------|---------------------------------------------------|------|----------------|"]
for i in range(1,21):
    k=f"C{i:02d}"; ev=json.load(open(f'/verif/evidence/{k}.json'))
    h,sh,txt=rows[k]
    lines.append(f"| {k} | {h} | {sh} | {txt} | {nums(ev)}; {ev.get('wall_s',0):.0f} s | {ev.get('level','')} |")
s=open('/verif/DESIGN.md').read()
a=s.index('| id | harness(es) | shape |'); b=s.index('\n\n',a)
s=s[:a]+'\n'.join(lines)+s[b:]
open('/verif/DESIGN.md','w').write(s)
print('table written')
