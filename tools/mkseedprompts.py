#!/usr/bin/env python3
"""mkseedprompts.py <round> : write /tmp/prompt<round>-Cxx.txt for fresh sub-agents that propose property-breaking
changes. A prompt contains the text of ONE property (title, statement, quantifier), the path of the agent's own
scratch worktree /tmp/wt<round>-Cxx (create it with `git -C /repo worktree add --detach`), and - from round 2 on -
one-line descriptions of the changes earlier rounds made for that property, so that the new one differs.
Nothing from /verif is shown to the agent."""
import json, sys, os
rnd = sys.argv[1]
T = '''You are given a Go repository (enbility/ship-go, a Go implementation of the EEBUS SHIP 1.0.1 protocol: websocket/TLS transport, SHIP handshake state machine, EEBUS JSON transform, mDNS discovery, pairing hub) checked out as a git worktree at {wt}. Work ONLY inside {wt} (do not read or write /repo, /verif or any other worktree; do not look for verification tooling elsewhere on the machine). The machine is offline; prefix Go commands with: export GOFLAGS=-mod=mod GOPROXY=off GOSUMDB=off GOTOOLCHAIN=local

PROPERTY the library is supposed to have:

{prop}

YOUR TASK: make a realistic change to the library's NON-TEST source code that BREAKS this property, such that
 (a) the code still compiles (go build ./...),
 (b) the repository's existing tests still pass: run `go test -vet=off -count=1 ./...` in {wt} (takes ~3-4 minutes; three tests in package mdns - Test_AvahiOnly, Test_LongStrings, Test_Start_IFaces - already fail WITHOUT your change because there is no network/D-Bus here; ignore exactly those, every other test must pass),
 (c) the breakage needs something SPECIFIC to manifest - a particular interleaving of goroutines, a crash or fault at a particular point, a multi-step sequence of operations, an unusual input, or two cooperating code sites that each look fine alone - NOT something ordinary use would expose at once.
The change should look like a plausible regression or refactoring slip of a few lines (a dropped check, a reordered pair of statements, a lock released too early, a wrong comparison, state hoisted to the wrong scope, ...), not sabotage such as deleting a feature. Do not edit, add or remove existing *_test.go files' contents (you may ADD a new demo test file).

Also write a DEMONSTRATION: a new Go test file (e.g. zz_demo_test.go in the relevant package; it may use package-internal access) or a small program inside the worktree that FAILS with your change and PASSES without it. Verify both yourself, but do NOT use `git stash` (the stash is shared with other worktrees that other people use at the same time): save your change with `git diff > {wt}/my.patch`, remove it with `git apply -R {wt}/my.patch`, run the demo, and re-apply it with `git apply {wt}/my.patch`. Make the demonstration deterministic if at all possible (steer the interleaving with channels, fake writers/readers or hooks inside the test rather than sleeps).

DELIVER: leave the source change UNCOMMITTED in the worktree and the demo file untracked; write {wt}/MUTATION.md containing: (1) the files/lines changed and the diff, (2) why this breaks the property, (3) exactly what is needed for it to manifest, (4) the command that runs the demo and its output with and without the change, (5) the result of the full test run with the change. Do not commit anything. Your final answer should summarise the same in a few lines.'''
for l in open('/verif/properties.jsonl'):
    p = json.loads(l); i = p['id']
    prop = f"{i}: {p['title']}\n\nStatement: {p['statement']}\n\nQuantified over: {p['quantifier']['text']}\n"
    wt = f"/tmp/wt{rnd}-{i}"
    txt = T.format(wt=wt, prop=prop)
    prev = []
    for suffix in 'abcdefgh':
        f = f'/verif/seeded/{i}-{suffix}/meta.json'
        if not os.path.exists(f):
            f = f'/verif/seeded/withdrawn/{i}-{suffix}/meta.json'
        if os.path.exists(f):
            m = json.load(open(f))
            prev.append(f"- \"{m['what']}\" (it needs: {m['needs']})")
    if prev and rnd != '1':
        txt += ("\n\nIMPORTANT - diversity: other people already did this exercise for the same property with these changes:\n" + "\n".join(prev) +
                "\nDo something DIFFERENT from all of them: pick another code site and another mechanism (another function, another kind of slip, another trigger), ideally exercising a different part of the property statement. Concurrency-, fault- or sequence-dependent breakage is especially welcome.\n")
    open(f'/tmp/prompt{rnd}-{i}.txt', 'w').write(txt)
print('written')
