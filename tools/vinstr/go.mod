module vinstr

go 1.22.0

require golang.org/x/tools v0.29.0
