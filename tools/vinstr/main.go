// vinstr copies a Go module and rewrites the packages named on the command line so that all
// synchronisation, time, randomness and I/O library boundaries go through the simrt runtime.
// Purely mechanical; every rewrite preserves evaluation order. Any construct it cannot rewrite
// faithfully is a hard error (exit 2), never a verdict.
package main

import (
	"bytes"
	"flag"
	"fmt"
	"go/ast"
	"go/format"
	"go/importer"
	"go/parser"
	"go/token"
	"go/types"
	"io"
	"os"
	"path/filepath"
	"sort"
	"strconv"
	"strings"

	"golang.org/x/tools/go/ast/astutil"
)

const modPath = "github.com/enbility/ship-go"
const rtPath = modPath + "/zzverif"

var importMap = map[string]string{
	"sync":                            rtPath + "/ssync",
	"time":                            rtPath + "/stime",
	"math/rand":                       rtPath + "/srand",
	"context":                         rtPath + "/sctx",
	"github.com/gorilla/websocket":    rtPath + "/fakews",
	"github.com/enbility/zeroconf/v2": rtPath + "/fakezeroconf",
	"github.com/enbility/go-avahi":    rtPath + "/fakeavahi",
}

// only in package hub (cert keeps the real crypto/tls; the types are aliases)
var hubImportMap = map[string]string{
	"net/http":   rtPath + "/fakehttp",
	"crypto/tls": rtPath + "/faketls",
}

var defaultName = map[string]string{
	"sync": "sync", "time": "time", "math/rand": "rand", "context": "context",
	"github.com/gorilla/websocket": "websocket", "github.com/enbility/zeroconf/v2": "zeroconf",
	"github.com/enbility/go-avahi": "avahi", "net/http": "http", "crypto/tls": "tls",
}

func fatal(format string, a ...any) {
	fmt.Fprintf(os.Stderr, "ENGINE-ERROR: vinstr: "+format+"\n", a...)
	os.Exit(2)
}

func main() {
	repo := flag.String("repo", "/repo", "module to instrument")
	out := flag.String("out", "", "output directory (scratch copy)")
	pkgsF := flag.String("pkgs", "ship,ws,hub,mdns,api,util", "packages (directories) to rewrite")
	access := flag.Bool("access", false, "also instrument field and map accesses (C20)")
	traceF := flag.String("trace", "", "comma separated pkg.Func / pkg.(*T).Method names that get an entry trace hook")
	flag.Parse()
	if *out == "" {
		fatal("-out required")
	}
	tracees := map[string]bool{}
	for _, t := range strings.Split(*traceF, ",") {
		if t != "" {
			tracees[t] = true
		}
	}
	instr := map[string]bool{}
	for _, p := range strings.Split(*pkgsF, ",") {
		instr[p] = true
	}
	if err := os.Chdir(*repo); err != nil {
		fatal("%v", err)
	}
	// 1. copy the tree (non-test sources only)
	err := filepath.Walk(".", func(p string, fi os.FileInfo, err error) error {
		if err != nil {
			return err
		}
		if fi.IsDir() {
			b := filepath.Base(p)
			if p != "." && (strings.HasPrefix(b, ".") || b == "mocks" || b == "zzverif") {
				return filepath.SkipDir
			}
			return os.MkdirAll(filepath.Join(*out, p), 0o755)
		}
		if strings.HasSuffix(p, "_test.go") {
			return nil
		}
		if !(strings.HasSuffix(p, ".go") || filepath.Base(p) == "go.mod" || filepath.Base(p) == "go.sum") {
			return nil
		}
		if strings.HasSuffix(p, ".go") && instr[filepath.Dir(p)] {
			return nil // written by the rewriter
		}
		return copyFile(p, filepath.Join(*out, p))
	})
	if err != nil {
		fatal("copy: %v", err)
	}
	// 2. rewrite
	fset := token.NewFileSet()
	imp := importer.ForCompiler(fset, "source", nil)
	var dirs []string
	for d := range instr {
		dirs = append(dirs, d)
	}
	sort.Strings(dirs)
	for _, d := range dirs {
		if _, err := os.Stat(d); err != nil {
			continue
		}
		rewritePackage(fset, imp, d, *out, *access, tracees)
	}
}

func copyFile(src, dst string) error {
	in, err := os.Open(src)
	if err != nil {
		return err
	}
	defer in.Close()
	o, err := os.Create(dst)
	if err != nil {
		return err
	}
	defer o.Close()
	_, err = io.Copy(o, in)
	return err
}

type rewriter struct {
	fset    *token.FileSet
	info    *types.Info
	pkg     *types.Package
	dir     string
	access  bool
	tracees map[string]bool
	used    bool // simrt referenced in current file
	skip    map[ast.Node]bool
	recv2   map[ast.Node]bool
	rangeK  map[*ast.RangeStmt]string // "map" | "chan"
	lhs     map[ast.Expr]bool         // expressions in write position
	noinstr map[ast.Expr]bool         // selector expressions that must not be wrapped (e.g. operand of &, method values)
	elemLoc map[ast.Node]string       // slice element accesses (index expressions, range statements, calls): location label
	elemWr  map[ast.Node]bool         // index expressions in write position
	elemOp  map[*ast.CallExpr]string  // calls that read / write slice elements: "copy", "append", "wr", "rd"
	fn      string                    // enclosing function name
	tmp     int
}

func rewritePackage(fset *token.FileSet, imp types.Importer, dir, out string, access bool, tracees map[string]bool) {
	pkgs, err := parser.ParseDir(fset, dir, func(fi os.FileInfo) bool { return !strings.HasSuffix(fi.Name(), "_test.go") }, parser.ParseComments)
	if err != nil {
		fatal("parse %s: %v", dir, err)
	}
	for name, p := range pkgs {
		var files []*ast.File
		var names []string
		for fn := range p.Files {
			names = append(names, fn)
		}
		sort.Strings(names)
		for _, fn := range names {
			files = append(files, p.Files[fn])
		}
		info := &types.Info{
			Types:      map[ast.Expr]types.TypeAndValue{},
			Uses:       map[*ast.Ident]types.Object{},
			Defs:       map[*ast.Ident]types.Object{},
			Selections: map[*ast.SelectorExpr]*types.Selection{},
		}
		conf := types.Config{Importer: imp}
		tpkg, err := conf.Check(modPath+"/"+dir, fset, files, info)
		if err != nil {
			fatal("type-check %s (%s): %v", dir, name, err)
		}
		for i, f := range files {
			r := &rewriter{fset: fset, info: info, pkg: tpkg, dir: dir, access: access, tracees: tracees,
				skip: map[ast.Node]bool{}, recv2: map[ast.Node]bool{}, rangeK: map[*ast.RangeStmt]string{},
				lhs: map[ast.Expr]bool{}, noinstr: map[ast.Expr]bool{},
				elemLoc: map[ast.Node]string{}, elemWr: map[ast.Node]bool{}, elemOp: map[*ast.CallExpr]string{}}
			r.file(f)
			var buf bytes.Buffer
			if err := format.Node(&buf, fset, f); err != nil {
				fatal("print %s: %v", names[i], err)
			}
			if err := os.WriteFile(filepath.Join(out, names[i]), buf.Bytes(), 0o644); err != nil {
				fatal("%v", err)
			}
		}
	}
}

func id(n string) *ast.Ident { return ast.NewIdent(n) }
func sel(x, s string) ast.Expr {
	return &ast.SelectorExpr{X: id(x), Sel: id(s)}
}
func call(fn ast.Expr, args ...ast.Expr) *ast.CallExpr { return &ast.CallExpr{Fun: fn, Args: args} }
func str(s string) ast.Expr {
	return &ast.BasicLit{Kind: token.STRING, Value: strconv.Quote(s)}
}
func (r *rewriter) rt(name string) ast.Expr { r.used = true; return sel("simrt", name) }

func (r *rewriter) newTmp(p string) string {
	r.tmp++
	return fmt.Sprintf("_vz%s%d", p, r.tmp)
}

func unparen(e ast.Expr) ast.Expr {
	for {
		p, ok := e.(*ast.ParenExpr)
		if !ok {
			return e
		}
		e = p.X
	}
}

func isRecv(e ast.Expr) *ast.UnaryExpr {
	u, ok := unparen(e).(*ast.UnaryExpr)
	if ok && u.Op == token.ARROW {
		return u
	}
	return nil
}

func (r *rewriter) exprString(e ast.Expr) string {
	var b bytes.Buffer
	_ = format.Node(&b, r.fset, e)
	s := b.String()
	if len(s) > 60 {
		s = s[:60]
	}
	return strings.ReplaceAll(s, "\n", " ")
}

func (r *rewriter) file(f *ast.File) {
	// imports
	for _, is := range f.Imports {
		p, _ := strconv.Unquote(is.Path.Value)
		np, ok := importMap[p]
		if !ok && r.dir == "hub" {
			np, ok = hubImportMap[p]
		}
		if !ok {
			continue
		}
		if is.Name == nil {
			is.Name = id(defaultName[p])
		}
		is.Path.Value = strconv.Quote(np)
	}
	// keep only build constraints
	var keep []*ast.CommentGroup
	for _, cg := range f.Comments {
		if cg.End() < f.Package {
			for _, c := range cg.List {
				if strings.HasPrefix(c.Text, "//go:build") {
					keep = append(keep, cg)
				}
			}
		}
	}
	f.Comments = keep
	f.Doc = nil

	for _, d := range f.Decls {
		fd, ok := d.(*ast.FuncDecl)
		if !ok {
			if gd, ok := d.(*ast.GenDecl); ok {
				gd.Doc = nil
				r.fn = "init"
				r.rewriteNode(gd)
			}
			continue
		}
		fd.Doc = nil
		r.fn = r.funcName(fd)
		if fd.Body == nil {
			continue
		}
		r.rewriteNode(fd.Body)
		if r.tracees[r.fn] {
			args := []ast.Expr{str(r.fn)}
			if fd.Recv != nil && len(fd.Recv.List) == 1 && len(fd.Recv.List[0].Names) == 1 && fd.Recv.List[0].Names[0].Name != "_" {
				args = append(args, id(fd.Recv.List[0].Names[0].Name))
			}
			for _, p := range fd.Type.Params.List {
				for _, n := range p.Names {
					if n.Name != "_" {
						args = append(args, id(n.Name))
					}
				}
			}
			st := &ast.ExprStmt{X: call(r.rt("Trace"), args...)}
			rargs := append([]ast.Expr{str(r.fn + ":ret")}, args[1:]...)
			df := &ast.DeferStmt{Call: call(r.rt("Trace"), rargs...)}
			fd.Body.List = append([]ast.Stmt{st, df}, fd.Body.List...)
		}
	}
	if r.used {
		astutil.AddNamedImport(r.fset, f, "simrt", rtPath+"/simrt")
	}
}

func (r *rewriter) funcName(fd *ast.FuncDecl) string {
	pk := r.pkg.Name()
	if fd.Recv == nil || len(fd.Recv.List) == 0 {
		return pk + "." + fd.Name.Name
	}
	t := fd.Recv.List[0].Type
	ptr := false
	if s, ok := t.(*ast.StarExpr); ok {
		ptr = true
		t = s.X
	}
	if ix, ok := t.(*ast.IndexExpr); ok {
		t = ix.X
	}
	tn := "?"
	if i, ok := t.(*ast.Ident); ok {
		tn = i.Name
	}
	if ptr {
		return fmt.Sprintf("%s.(*%s).%s", pk, tn, fd.Name.Name)
	}
	return fmt.Sprintf("%s.%s.%s", pk, tn, fd.Name.Name)
}

func (r *rewriter) isBuiltin(fun ast.Expr, name string) bool {
	i, ok := unparen(fun).(*ast.Ident)
	if !ok || i.Name != name {
		return false
	}
	_, isb := r.info.Uses[i].(*types.Builtin)
	return isb
}

func (r *rewriter) typeOf(e ast.Expr) types.Type {
	if tv, ok := r.info.Types[e]; ok {
		return tv.Type
	}
	return nil
}

func (r *rewriter) isConst(e ast.Expr) bool {
	tv, ok := r.info.Types[e]
	return ok && (tv.Value != nil || tv.IsNil())
}

func (r *rewriter) rewriteNode(root ast.Node) {
	astutil.Apply(root, r.pre, r.post)
}

func (r *rewriter) pre(c *astutil.Cursor) bool {
	switch n := c.Node().(type) {
	case *ast.SelectStmt:
		for _, cl := range n.Body.List {
			cc := cl.(*ast.CommClause)
			switch s := cc.Comm.(type) {
			case *ast.SendStmt:
				r.skip[s] = true
			case *ast.ExprStmt:
				if u := isRecv(s.X); u != nil {
					r.skip[u] = true
				}
			case *ast.AssignStmt:
				if len(s.Rhs) == 1 {
					if u := isRecv(s.Rhs[0]); u != nil {
						r.skip[u] = true
					}
				}
				r.skip[s] = true
			}
		}
	case *ast.AssignStmt:
		if !r.skip[n] && len(n.Lhs) == 2 && len(n.Rhs) == 1 {
			if u := isRecv(n.Rhs[0]); u != nil {
				r.recv2[u] = true
			}
		}
		if r.access {
			for _, l := range n.Lhs {
				r.markWrite(l)
			}
		}
	case *ast.ValueSpec:
		if len(n.Names) == 2 && len(n.Values) == 1 {
			if u := isRecv(n.Values[0]); u != nil {
				r.recv2[u] = true
			}
		}
	case *ast.IncDecStmt:
		if r.access {
			r.markWrite(n.X)
		}
	case *ast.UnaryExpr:
		if r.access && n.Op == token.AND {
			r.markNoInstr(n.X)
		}
	case *ast.CallExpr:
		if r.access {
			// method values / calls: the selector of a method call is not a field access;
			// delete(m, k) writes m; append etc. handled as reads
			if r.isBuiltin(n.Fun, "delete") && len(n.Args) == 2 {
				r.markWrite(n.Args[0])
			}
			r.preElemCall(n)
		}
	case *ast.IndexExpr:
		if r.access && r.elemLoc[n] == "" && r.isSlice(n.X) {
			r.elemLoc[n] = r.sliceLoc(n.X)
		}
	case *ast.RangeStmt:
		if t := r.typeOf(n.X); t != nil {
			switch t.Underlying().(type) {
			case *types.Map:
				r.rangeK[n] = "map"
			case *types.Chan:
				r.rangeK[n] = "chan"
			}
		}
		if r.access && r.isSlice(n.X) {
			r.elemLoc[n] = r.sliceLoc(n.X)
		}
		if r.access {
			if n.Key != nil {
				r.markWrite(n.Key)
			}
			if n.Value != nil {
				r.markWrite(n.Value)
			}
		}
	case *ast.FuncLit:
		// nothing special; closures inherit the enclosing function name
	}
	return true
}

// markWrite records that the outermost location expression e is written.
func (r *rewriter) markWrite(e ast.Expr) {
	e = unparen(e)
	switch x := e.(type) {
	case *ast.SelectorExpr:
		r.lhs[x] = true
	case *ast.IndexExpr:
		// m[k] = v writes the map (the container); a[i] = v on slices writes an element (not tracked) and reads the slice header
		if t := r.typeOf(x.X); t != nil {
			if _, ok := t.Underlying().(*types.Map); ok {
				r.markWrite(x.X)
			}
			if _, ok := t.Underlying().(*types.Slice); ok {
				r.elemWr[x] = true
			}
		}
	case *ast.StarExpr:
	}
}

func (r *rewriter) markNoInstr(e ast.Expr) {
	e = unparen(e)
	switch x := e.(type) {
	case *ast.SelectorExpr:
		r.noinstr[x] = true
	case *ast.IndexExpr:
		r.markNoInstr(x.X)
		r.elemLoc[x] = "-"
	case *ast.CompositeLit:
	}
}

func (r *rewriter) post(c *astutil.Cursor) bool {
	switch n := c.Node().(type) {
	case *ast.GoStmt:
		c.Replace(r.goStmt(n))
	case *ast.SendStmt:
		if r.skip[n] {
			return true
		}
		c.Replace(&ast.ExprStmt{X: call(r.rt("Send"), n.Chan, n.Value)})
	case *ast.UnaryExpr:
		if n.Op == token.AND && r.access {
			// &g of a package-level variable of the module (handed to a decoder, say): counts as a write of g
			if id, ok := unparen(n.X).(*ast.Ident); ok {
				if v, ok := r.info.Uses[id].(*types.Var); ok && v.Pkg() != nil && v.Parent() == v.Pkg().Scope() && strings.HasPrefix(v.Pkg().Path(), modPath) {
					if ft := v.Type().String(); !strings.HasPrefix(ft, "sync.") && !strings.Contains(ft, "zzverif") {
						c.Replace(call(r.rt("Wr"), n, str(v.Pkg().Name()+"."+v.Name())))
					}
				}
			}
			return true
		}
		if n.Op != token.ARROW || r.skip[n] {
			return true
		}
		if r.recv2[n] {
			c.Replace(call(r.rt("Recv2"), n.X))
		} else {
			c.Replace(call(r.rt("Recv"), n.X))
		}
	case *ast.CallExpr:
		if r.isBuiltin(n.Fun, "close") && len(n.Args) == 1 {
			c.Replace(call(r.rt("Close"), n.Args[0]))
		}
		if op := r.elemOp[n]; op != "" {
			r.postElemCall(n, op)
		}
	case *ast.IndexExpr:
		if loc := r.elemLoc[n]; loc != "" && loc != "-" {
			fn := "Rd"
			if r.elemWr[n] {
				fn = "Wr"
			}
			c.Replace(&ast.ParenExpr{X: &ast.StarExpr{X: call(r.rt(fn), &ast.UnaryExpr{Op: token.AND, X: n}, str(loc))}})
		}
	case *ast.SelectStmt:
		c.Replace(r.selectStmt(n))
	case *ast.RangeStmt:
		if loc := r.elemLoc[n]; loc != "" {
			n.X = call(r.rt("RdElems"), n.X, str(loc))
		}
		switch r.rangeK[n] {
		case "map":
			if _, labeled := c.Parent().(*ast.LabeledStmt); labeled {
				fatal("%s: labeled range over map is not supported", r.fset.Position(n.Pos()))
			}
			c.Replace(r.rangeMap(n))
		case "chan":
			if _, labeled := c.Parent().(*ast.LabeledStmt); labeled {
				fatal("%s: labeled range over channel is not supported", r.fset.Position(n.Pos()))
			}
			c.Replace(r.rangeChan(n))
		}
	case *ast.SelectorExpr:
		if r.access {
			if ne := r.accessSel(n, c); ne != nil {
				c.Replace(ne)
			}
		}
	}
	return true
}

// go f(a, b)  =>  { _f := f; _a := a; simrt.Go("name", func() { _f(_a, b_const) }) }
func (r *rewriter) goStmt(g *ast.GoStmt) ast.Stmt {
	name := r.fn + ">" + r.exprString(g.Call.Fun)
	if _, ok := g.Call.Fun.(*ast.FuncLit); ok {
		name = r.fn + ">func"
	}
	var stmts []ast.Stmt
	bind := func(e ast.Expr, p string) ast.Expr {
		if r.isConst(e) {
			return e
		}
		if _, ok := e.(*ast.FuncLit); ok {
			return e
		}
		v := r.newTmp(p)
		stmts = append(stmts, &ast.AssignStmt{Lhs: []ast.Expr{id(v)}, Tok: token.DEFINE, Rhs: []ast.Expr{e}})
		return id(v)
	}
	fun := g.Call.Fun
	if _, isLit := fun.(*ast.FuncLit); !isLit {
		// builtins / conversions cannot be bound
		if i, ok := unparen(fun).(*ast.Ident); ok {
			if _, isb := r.info.Uses[i].(*types.Builtin); isb {
				fatal("%s: go <builtin> is not supported", r.fset.Position(g.Pos()))
			}
		}
		fun = bind(fun, "f")
	}
	var args []ast.Expr
	for _, a := range g.Call.Args {
		args = append(args, bind(a, "a"))
	}
	inner := &ast.CallExpr{Fun: fun, Args: args, Ellipsis: g.Call.Ellipsis}
	if _, isLit := fun.(*ast.FuncLit); isLit {
		inner.Fun = &ast.ParenExpr{X: fun}
	}
	lit := &ast.FuncLit{Type: &ast.FuncType{Params: &ast.FieldList{}}, Body: &ast.BlockStmt{List: []ast.Stmt{&ast.ExprStmt{X: inner}}}}
	stmts = append(stmts, &ast.ExprStmt{X: call(r.rt("Go"), str(name), lit)})
	return &ast.BlockStmt{List: stmts}
}

func (r *rewriter) selectStmt(s *ast.SelectStmt) ast.Stmt {
	var lhs, rhs []ast.Expr
	var cases []ast.Stmt
	hasDefault := false
	args := []ast.Expr{nil}
	idx := 0
	for _, cl := range s.Body.List {
		cc := cl.(*ast.CommClause)
		if cc.Comm == nil {
			hasDefault = true
			cases = append(cases, &ast.CaseClause{List: []ast.Expr{&ast.UnaryExpr{Op: token.SUB, X: &ast.BasicLit{Kind: token.INT, Value: "1"}}}, Body: cc.Body})
			continue
		}
		v := r.newTmp("c")
		lhs = append(lhs, id(v))
		args = append(args, id(v))
		body := cc.Body
		switch cm := cc.Comm.(type) {
		case *ast.SendStmt:
			rhs = append(rhs, call(r.rt("SendCase"), cm.Chan, cm.Value))
		case *ast.ExprStmt:
			u := isRecv(cm.X)
			if u == nil {
				fatal("%s: unsupported select case", r.fset.Position(cm.Pos()))
			}
			rhs = append(rhs, call(r.rt(r.recvCaseFn(u.X)), u.X))
		case *ast.AssignStmt:
			u := isRecv(cm.Rhs[0])
			if u == nil {
				fatal("%s: unsupported select case", r.fset.Position(cm.Pos()))
			}
			rhs = append(rhs, call(r.rt(r.recvCaseFn(u.X)), u.X))
			m := "Val"
			if len(cm.Lhs) == 2 {
				m = "Val2"
			}
			as := &ast.AssignStmt{Lhs: cm.Lhs, Tok: cm.Tok, Rhs: []ast.Expr{call(&ast.SelectorExpr{X: id(v), Sel: id(m)})}}
			body = append([]ast.Stmt{as}, body...)
		default:
			fatal("%s: unsupported select case", r.fset.Position(cc.Pos()))
		}
		cases = append(cases, &ast.CaseClause{List: []ast.Expr{&ast.BasicLit{Kind: token.INT, Value: strconv.Itoa(idx)}}, Body: body})
		idx++
	}
	args[0] = id(strconv.FormatBool(hasDefault))
	sw := &ast.SwitchStmt{Tag: call(r.rt("Select"), args...), Body: &ast.BlockStmt{List: cases}}
	if len(lhs) > 0 {
		sw.Init = &ast.AssignStmt{Lhs: lhs, Tok: token.DEFINE, Rhs: rhs}
	}
	return sw
}

// recvCaseFn picks RecvCaseOwned when the channel expression is an inline time.After(...) call.
func (r *rewriter) recvCaseFn(ch ast.Expr) string {
	if ce, ok := unparen(ch).(*ast.CallExpr); ok {
		if se, ok := ce.Fun.(*ast.SelectorExpr); ok && se.Sel.Name == "After" {
			if x, ok := se.X.(*ast.Ident); ok {
				if pn, ok := r.info.Uses[x].(*types.PkgName); ok && pn.Imported().Path() == "time" {
					return "RecvCaseOwned"
				}
			}
		}
	}
	return "RecvCase"
}

// for k, v := range m  =>  { _m := m; for _, k := range simrt.SortedKeys(_m) { v, ok := _m[k]; if !ok { continue }; body } }
func (r *rewriter) rangeMap(n *ast.RangeStmt) ast.Stmt {
	mv := r.newTmp("m")
	okv := r.newTmp("ok")
	var stmts []ast.Stmt
	stmts = append(stmts, &ast.AssignStmt{Lhs: []ast.Expr{id(mv)}, Tok: token.DEFINE, Rhs: []ast.Expr{n.X}})
	keyExpr := n.Key
	tok := n.Tok
	isBlank := func(e ast.Expr) bool {
		if e == nil {
			return true
		}
		i, ok := e.(*ast.Ident)
		return ok && i.Name == "_"
	}
	var kname ast.Expr
	var pre []ast.Stmt
	if isBlank(keyExpr) {
		kname = id(r.newTmp("k"))
		tok = token.DEFINE
	} else {
		kname = keyExpr
	}
	loopKey := kname
	loopTok := tok
	if tok == token.ASSIGN && isBlank(keyExpr) {
		loopTok = token.DEFINE
	}
	if !isBlank(n.Value) {
		if n.Tok == token.DEFINE {
			pre = append(pre, &ast.AssignStmt{Lhs: []ast.Expr{n.Value, id(okv)}, Tok: token.DEFINE, Rhs: []ast.Expr{&ast.IndexExpr{X: id(mv), Index: kname}}})
		} else {
			pre = append(pre, &ast.AssignStmt{Lhs: []ast.Expr{id("_"), id(okv)}, Tok: token.DEFINE, Rhs: []ast.Expr{&ast.IndexExpr{X: id(mv), Index: kname}}})
			pre = append(pre, &ast.IfStmt{Cond: id(okv), Body: &ast.BlockStmt{List: []ast.Stmt{&ast.AssignStmt{Lhs: []ast.Expr{n.Value}, Tok: token.ASSIGN, Rhs: []ast.Expr{&ast.IndexExpr{X: id(mv), Index: kname}}}}}})
		}
	} else {
		pre = append(pre, &ast.AssignStmt{Lhs: []ast.Expr{id("_"), id(okv)}, Tok: token.DEFINE, Rhs: []ast.Expr{&ast.IndexExpr{X: id(mv), Index: kname}}})
	}
	pre = append(pre, &ast.IfStmt{Cond: &ast.UnaryExpr{Op: token.NOT, X: id(okv)}, Body: &ast.BlockStmt{List: []ast.Stmt{&ast.BranchStmt{Tok: token.CONTINUE}}}})
	body := &ast.BlockStmt{List: append(pre, n.Body.List...)}
	loop := &ast.RangeStmt{Key: id("_"), Value: loopKey, Tok: loopTok, X: call(r.rt("SortedKeys"), id(mv)), Body: body}
	stmts = append(stmts, loop)
	return &ast.BlockStmt{List: stmts}
}

// for v := range ch  =>  for { v, ok := simrt.Recv2(ch); if !ok { break }; body }
func (r *rewriter) rangeChan(n *ast.RangeStmt) ast.Stmt {
	cv := r.newTmp("ch")
	okv := r.newTmp("ok")
	var lhs ast.Expr = id("_")
	tok := token.DEFINE
	if n.Key != nil {
		lhs = n.Key
	}
	var recv ast.Stmt
	if n.Key != nil && n.Tok == token.ASSIGN {
		tv := r.newTmp("v")
		recv = &ast.AssignStmt{Lhs: []ast.Expr{id(tv), id(okv)}, Tok: token.DEFINE, Rhs: []ast.Expr{call(r.rt("Recv2"), id(cv))}}
		body := []ast.Stmt{recv,
			&ast.IfStmt{Cond: &ast.UnaryExpr{Op: token.NOT, X: id(okv)}, Body: &ast.BlockStmt{List: []ast.Stmt{&ast.BranchStmt{Tok: token.BREAK}}}},
			&ast.AssignStmt{Lhs: []ast.Expr{n.Key}, Tok: token.ASSIGN, Rhs: []ast.Expr{id(tv)}}}
		return &ast.BlockStmt{List: []ast.Stmt{
			&ast.AssignStmt{Lhs: []ast.Expr{id(cv)}, Tok: token.DEFINE, Rhs: []ast.Expr{n.X}},
			&ast.ForStmt{Body: &ast.BlockStmt{List: append(body, n.Body.List...)}}}}
	}
	recv = &ast.AssignStmt{Lhs: []ast.Expr{lhs, id(okv)}, Tok: tok, Rhs: []ast.Expr{call(r.rt("Recv2"), id(cv))}}
	body := []ast.Stmt{recv,
		&ast.IfStmt{Cond: &ast.UnaryExpr{Op: token.NOT, X: id(okv)}, Body: &ast.BlockStmt{List: []ast.Stmt{&ast.BranchStmt{Tok: token.BREAK}}}}}
	return &ast.BlockStmt{List: []ast.Stmt{
		&ast.AssignStmt{Lhs: []ast.Expr{id(cv)}, Tok: token.DEFINE, Rhs: []ast.Expr{n.X}},
		&ast.ForStmt{Body: &ast.BlockStmt{List: append(body, n.Body.List...)}}}}
}

func (r *rewriter) isSlice(e ast.Expr) bool {
	if t := r.typeOf(e); t != nil {
		_, ok := t.Underlying().(*types.Slice)
		return ok
	}
	return false
}

// sliceLoc names the elements of a slice expression: "T.f[]" for a field, else the slice type.
func (r *rewriter) sliceLoc(e ast.Expr) string {
	e = unparen(e)
	if se, ok := e.(*ast.SliceExpr); ok {
		return r.sliceLoc(se.X)
	}
	if sel, ok := e.(*ast.SelectorExpr); ok {
		if s, ok := r.info.Selections[sel]; ok && s.Kind() == types.FieldVal {
			recv := s.Recv()
			if p, ok := recv.(*types.Pointer); ok {
				recv = p.Elem()
			}
			if nt, ok := recv.(*types.Named); ok {
				return nt.Obj().Name() + "." + s.Obj().Name() + "[]"
			}
		}
	}
	if t := r.typeOf(e); t != nil {
		return types.TypeString(t, func(p *types.Package) string { return p.Name() }) + " elements"
	}
	return "slice elements"
}

// simple: evaluating the expression twice has no side effects and costs nothing
func simpleExpr(e ast.Expr) bool {
	switch x := unparen(e).(type) {
	case *ast.Ident:
		return true
	case *ast.SelectorExpr:
		return simpleExpr(x.X)
	case *ast.BasicLit:
		return true
	}
	return false
}

var sliceWriters = map[string]bool{"slices.Sort": true, "slices.SortFunc": true, "slices.SortStableFunc": true, "slices.Reverse": true,
	"slices.Compact": true, "slices.CompactFunc": true, "slices.Delete": true, "slices.DeleteFunc": true, "slices.Insert": true, "slices.Replace": true,
	"sort.Slice": true, "sort.SliceStable": true, "sort.Strings": true, "sort.Ints": true, "sort.Float64s": true}

// preElemCall classifies calls that read or write the elements of a slice argument: the builtins copy and
// append, and the functions of the standard packages slices and sort.
func (r *rewriter) preElemCall(n *ast.CallExpr) {
	switch {
	case r.isBuiltin(n.Fun, "copy") && len(n.Args) == 2 && r.isSlice(n.Args[0]) && simpleExpr(n.Args[1]):
		r.elemOp[n] = "copy"
		r.elemLoc[n] = r.sliceLoc(n.Args[0])
	case r.isBuiltin(n.Fun, "append") && len(n.Args) >= 1 && r.isSlice(n.Args[0]):
		if n.Ellipsis.IsValid() && !(len(n.Args) == 2 && simpleExpr(n.Args[1])) {
			return
		}
		r.elemOp[n] = "append"
		r.elemLoc[n] = r.sliceLoc(n.Args[0])
	default:
		sel, ok := unparen(n.Fun).(*ast.SelectorExpr)
		if ix, isIx := unparen(n.Fun).(*ast.IndexExpr); isIx {
			sel, ok = unparen(ix.X).(*ast.SelectorExpr)
		}
		if !ok || len(n.Args) == 0 || !r.isSlice(n.Args[0]) {
			return
		}
		fn, ok := r.info.Uses[sel.Sel].(*types.Func)
		if !ok || fn.Pkg() == nil || (fn.Pkg().Path() != "slices" && fn.Pkg().Path() != "sort") {
			return
		}
		if sliceWriters[fn.Pkg().Path()+"."+fn.Name()] {
			r.elemOp[n] = "wr"
		} else {
			r.elemOp[n] = "rd"
		}
		r.elemLoc[n] = r.sliceLoc(n.Args[0])
	}
}

func (r *rewriter) postElemCall(n *ast.CallExpr, op string) {
	loc := str(r.elemLoc[n])
	switch op {
	case "copy":
		n.Args[0] = call(r.rt("WrElemsN"), n.Args[0], call(id("len"), n.Args[1]), loc)
	case "append":
		var cnt ast.Expr = &ast.BasicLit{Kind: token.INT, Value: fmt.Sprint(len(n.Args) - 1)}
		if n.Ellipsis.IsValid() {
			cnt = call(id("len"), n.Args[1])
		}
		n.Args[0] = call(r.rt("AppElems"), n.Args[0], cnt, loc)
	case "wr":
		n.Args[0] = call(r.rt("WrElems"), n.Args[0], loc)
	case "rd":
		n.Args[0] = call(r.rt("RdElems"), n.Args[0], loc)
	}
}

// accessSel wraps a struct-field selector x.f (field of a struct type declared in this module)
// as (*simrt.Rd(&x.f, "T.f")) or (*simrt.Wr(&x.f, "T.f")).
func (r *rewriter) accessSel(n *ast.SelectorExpr, c *astutil.Cursor) ast.Expr {
	s, ok := r.info.Selections[n]
	if !ok || s.Kind() != types.FieldVal {
		return nil
	}
	if r.noinstr[n] {
		return nil
	}
	fv, ok := s.Obj().(*types.Var)
	if !ok || fv.Pkg() == nil || !strings.HasPrefix(fv.Pkg().Path(), modPath) {
		return nil
	}
	// owner type name
	recv := s.Recv()
	if p, ok := recv.(*types.Pointer); ok {
		recv = p.Elem()
	}
	tn := "?"
	if nt, ok := recv.(*types.Named); ok {
		tn = nt.Obj().Name()
	}
	// the field must be addressable: x must be a pointer or addressable variable; composite literals
	// and call results are not. Be conservative: only instrument when the base is an identifier,
	// a selector chain or a pointer-typed expression.
	if !r.addressable(n.X) {
		return nil
	}
	// skip sync primitives and channels used as identity (their operations are points of their own)
	ft := fv.Type().String()
	if strings.HasPrefix(ft, "sync.") || strings.Contains(ft, "zzverif") {
		return nil
	}
	// a selector that is the function part of a call of a func-typed field is a read — fine.
	fnName := "Rd"
	if r.lhs[n] {
		fnName = "Wr"
	}
	loc := tn + "." + fv.Name()
	return &ast.ParenExpr{X: &ast.StarExpr{X: call(r.rt(fnName), &ast.UnaryExpr{Op: token.AND, X: n}, str(loc))}}
}

func (r *rewriter) addressable(x ast.Expr) bool {
	x = unparen(x)
	if t := r.typeOf(x); t != nil {
		if _, ok := t.Underlying().(*types.Pointer); ok {
			return true
		}
	}
	switch e := x.(type) {
	case *ast.Ident:
		_, isVar := r.info.Uses[e].(*types.Var)
		return isVar
	case *ast.SelectorExpr:
		if s, ok := r.info.Selections[e]; ok && s.Kind() == types.FieldVal {
			return r.addressable(e.X)
		}
		return false
	case *ast.IndexExpr:
		if t := r.typeOf(e.X); t != nil {
			switch t.Underlying().(type) {
			case *types.Slice:
				return true
			case *types.Array:
				return r.addressable(e.X)
			}
		}
		return false
	case *ast.StarExpr:
		return true
	}
	return false
}
