#!/bin/bash
# seedstore.sh <seed-id> <agent-worktree> <property> : store a proposed mutation under /verif/seeded/<seed-id>/
set -u
S=$1; W=$2; P=$3
D=/verif/seeded/$S
mkdir -p $D
git -C $W diff > $D/patch.diff
for f in $(git -C $W ls-files --others --exclude-standard | grep -v "MUTATION.md\|my.patch\|\.patch$"); do mkdir -p $D/demo/$(dirname $f); cp $W/$f $D/demo/$f; done
cp $W/MUTATION.md $D/MUTATION.md 2>/dev/null
[ -f $D/meta.json ] || cat > $D/meta.json <<M
{"property": "$P", "needs": "", "verified": "", "detected_by": []}
M
ls -R $D | head -20
