#!/bin/bash
# seedverify.sh <worktree-of-a-sub-agent> : independent confirmation of a proposed mutation:
#  patch applies to a fresh worktree of /repo HEAD, builds, the 116 baseline tests pass with it,
#  the demonstration fails with the patch and passes without it.
set -u
W=${1:?worktree}
export GOFLAGS=-mod=mod GOPROXY=off GOSUMDB=off GOTOOLCHAIN=local
E=$(mktemp -d /var/tmp/seedverify.XXXXXX)
trap 'git -C /repo worktree remove --force $E/wt 2>/dev/null; rm -rf $E' EXIT
git -C $W diff > $E/patch.diff
[ -s $E/patch.diff ] || { echo "empty patch"; exit 1; }
git -C /repo worktree add --detach $E/wt HEAD >/dev/null 2>&1
(cd $E/wt && git apply $E/patch.diff) || { echo "patch does not apply to HEAD"; exit 1; }
(cd $E/wt && go build ./...) || { echo "does not build"; exit 1; }
echo "--- baseline with patch"
/verif/bin/baseline.sh $E/wt || { echo "BASELINE BROKEN"; }
# demo files = untracked files in the agent's worktree
DEMOS=$(git -C $W ls-files --others --exclude-standard | grep -v MUTATION.md)
echo "--- demo files: $DEMOS"
for f in $DEMOS; do mkdir -p $E/wt/$(dirname $f); cp $W/$f $E/wt/$f; done
for f in $DEMOS; do
  case $f in
    *_test.go) pkg=./$(dirname $f); name=$(grep -o "func Test[A-Za-z0-9_]*" $W/$f | sed 's/func //' | paste -sd'|');
      echo "--- demo $f ($name) WITH patch"; (cd $E/wt && go test -vet=off -count=1 -run "^($name)\$" $pkg 2>&1 | tail -4)
      (cd $E/wt && git apply -R $E/patch.diff)
      echo "--- demo $f ($name) WITHOUT patch"; (cd $E/wt && go test -vet=off -count=1 -run "^($name)\$" $pkg 2>&1 | tail -4)
      (cd $E/wt && git apply $E/patch.diff);;
  esac
done
