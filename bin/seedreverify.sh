#!/bin/bash
# seedreverify.sh <seed-id> : re-confirm a stored seeded change against /repo's current HEAD (after /repo moved on):
# scratch worktree of HEAD + patch.diff + demo files, then bin/seedverify.sh on it; the worktree is removed.
set -u
S=${1:?seed id}
D=/verif/seeded/$S
W=$(mktemp -d /var/tmp/seedre.XXXXXX)/wt
trap 'git -C /repo worktree remove --force $W 2>/dev/null; rm -rf $(dirname $W)' EXIT
git -C /repo worktree add --detach $W HEAD >/dev/null 2>&1
(cd $W && git apply $D/patch.diff) || { echo "patch does not apply to HEAD"; exit 1; }
(cd $D/demo 2>/dev/null && find . -type f) | while read f; do mkdir -p $W/$(dirname $f); cp $D/demo/$f $W/$f; done
/verif/bin/seedverify.sh $W
