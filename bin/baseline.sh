#!/bin/bash
# baseline.sh [repo-dir]: run the repository's test suite (guard off) and check that every test in
# BASELINE.json's stable_pass list passes. Prints missing/failed stable tests; exit 0 iff none.
R=${1:-/repo}
export GOFLAGS=-mod=mod GOPROXY=off GOSUMDB=off GOTOOLCHAIN=local
OUT=$(mktemp /var/tmp/baseline.XXXXXX.json)
(cd $R && go test -json -vet=off -count=1 -timeout 25m ./... > $OUT 2>/dev/null)
python3 - "$OUT" <<'PY'
import json,sys
base=json.load(open('/root/.vp/BASELINE.json'))
stable=set(base['stable_pass'])
passed=set()
for l in open(sys.argv[1]):
    try: e=json.loads(l)
    except: continue
    if e.get('Action')=='pass' and e.get('Test'):
        passed.add(e['Package']+'::'+e['Test'])
missing=sorted(stable-passed)
print(f"stable_pass={len(stable)} passed_now={len(stable&passed)} missing={len(missing)}")
for m in missing: print("  NOT PASSING:",m)
sys.exit(1 if missing else 0)
PY
rc=$?
rm -f $OUT
exit $rc
