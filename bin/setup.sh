#!/bin/bash
# Build the framework from files on disk only (offline) and prime the Go build cache.
set -e
V=/verif
export GOFLAGS=-mod=mod GOPROXY=off GOSUMDB=off GOTOOLCHAIN=local
export GOCACHE=${VERIF_GOCACHE:-$V/.cache/go-build}
mkdir -p "$GOCACHE" $V/evidence $V/replays
(cd $V/tools/vinstr && go build -o $V/bin/vinstr .)
# prime: a build-only pass of every harness (no exploration)
for id in $($V/bin/vcheck --list); do
  VERIF_BUILD_ONLY=1 $V/bin/vcheck $id >/dev/null 2>&1 || echo "setup: build of $id failed" >&2
done
echo setup done
