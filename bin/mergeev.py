import json,sys
out=sys.argv[1]; parts=[json.load(open(f)) for f in sorted(sys.argv[2:])]
ev=dict(parts[0]); cov=dict(parts[0]['coverage']); ev['coverage']=cov
cov['parts']=[p['coverage'] for p in parts]
for p in parts[1:]:
    c=p['coverage']
    for k,v in c.items():
        if k=='samples': cov['samples']=list(cov.get('samples') or [])+list(v or [])
        elif k=='exhaustive': cov['exhaustive']=bool(cov.get('exhaustive',True)) and bool(v)
        elif isinstance(v,int) and not isinstance(v,bool) and isinstance(cov.get(k,0),int) and k not in ('max_depth','depth_bound','histories_depth_bound'): cov[k]=cov.get(k,0)+v
        elif k not in cov: cov[k]=v
    ev['wall_s']=ev.get('wall_s',0)+p.get('wall_s',0)
    ev['violations']=ev.get('violations',0)+p.get('violations',0)
    ev['assumptions']=list(ev.get('assumptions') or [])+[a for a in (p.get('assumptions') or []) if a not in (ev.get('assumptions') or [])]
json.dump(ev,open(out,'w'),indent=1)
