#!/bin/bash
# seedrun.sh <seed-id> [--tier quick|thorough] [check ids...]
# Applies /verif/seeded/<seed-id>/patch.diff to /repo, runs the checks (default: the property named in
# meta.json) and reverts /repo. Evidence files and replays written during the run are restored afterwards.
set -u
S=${1:?seed id}; shift
TIER=quick
if [ "${1:-}" = "--tier" ]; then TIER=$2; shift 2; fi
D=/verif/seeded/$S
[ -f $D/patch.diff ] || { echo "no such seed $S"; exit 2; }
CHECKS="$*"
[ -n "$CHECKS" ] || CHECKS=$(python3 -c "import json;print(json.load(open('$D/meta.json'))['property'])")
if [ -n "$(git -C /repo status --porcelain)" ]; then echo "/repo is not clean"; exit 2; fi
git -C /repo apply $D/patch.diff || { echo "patch does not apply"; exit 2; }
trap 'git -C /repo checkout -- . ; git -C /verif checkout -- evidence 2>/dev/null' EXIT
for c in $CHECKS; do
  out=$(/verif/bin/vcheck $c --tier $TIER -replays /var/tmp/seedreplays 2>&1); rc=$?
  echo "== seed=$S check=$c tier=$TIER exit=$rc"
  echo "$out" | grep -A1 "^VIOLATION\|^KNOWN-FINDING\|ENGINE-ERROR" | cut -c1-260 | head -12
  echo "$out" | tail -1 | cut -c1-200
done
