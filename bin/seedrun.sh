#!/bin/bash
# seedrun.sh <seed-id> [--tier quick|thorough] [check ids...]
# Runs the checks (default: the property named in meta.json) against a scratch worktree of /repo's HEAD with
# /verif/seeded/<seed-id>/patch.diff applied (VERIF_REPO), so that /repo and /verif/evidence stay untouched.
# (Equivalent to: git -C /repo apply patch.diff; run checks; git -C /repo checkout -- .)
set -u
S=${1:?seed id}; shift
TIER=quick
if [ "${1:-}" = "--tier" ]; then TIER=$2; shift 2; fi
D=/verif/seeded/$S
[ -f $D/patch.diff ] || { echo "no such seed $S"; exit 2; }
CHECKS="$*"
[ -n "$CHECKS" ] || CHECKS=$(python3 -c "import json;print(json.load(open('$D/meta.json'))['property'])")
E=$(mktemp -d /var/tmp/seedrun.XXXXXX)
trap 'git -C /repo worktree remove --force $E/wt 2>/dev/null; rm -rf $E' EXIT
git -C /repo worktree add --detach $E/wt HEAD >/dev/null 2>&1
(cd $E/wt && git apply $D/patch.diff) || { echo "patch does not apply"; exit 2; }
mkdir -p $E/ev $E/replays
for c in $CHECKS; do
  out=$(VERIF_REPO=$E/wt VERIF_EVIDENCE_DIR=$E/ev /verif/bin/vcheck $c --tier $TIER -replays $E/replays 2>&1); rc=$?
  echo "== seed=$S check=$c tier=$TIER exit=$rc"
  echo "$out" | grep -A1 "^VIOLATION\|^KNOWN-FINDING\|ENGINE-ERROR" | cut -c1-260 | head -12
  echo "$out" | tail -1 | cut -c1-200
done
