// Package faketls replaces crypto/tls in package hub of the instrumented copy: the configuration
// types are aliases of the real ones; a Conn only carries the connection state the fake network
// computed from the real X.509 certificates.
package faketls

import (
	"crypto/tls"
	"errors"
	"net"
	"time"
)

type Config = tls.Config
type Certificate = tls.Certificate
type ConnectionState = tls.ConnectionState
type ClientAuthType = tls.ClientAuthType
type CurveID = tls.CurveID
type SignatureScheme = tls.SignatureScheme

const (
	NoClientCert               = tls.NoClientCert
	RequestClientCert          = tls.RequestClientCert
	RequireAnyClientCert       = tls.RequireAnyClientCert
	VerifyClientCertIfGiven    = tls.VerifyClientCertIfGiven
	RequireAndVerifyClientCert = tls.RequireAndVerifyClientCert
	VersionTLS10               = tls.VersionTLS10
	VersionTLS11               = tls.VersionTLS11
	VersionTLS12               = tls.VersionTLS12
	VersionTLS13               = tls.VersionTLS13
	ECDSAWithP256AndSHA256     = tls.ECDSAWithP256AndSHA256
)

const (
	TLS_ECDHE_ECDSA_WITH_AES_128_CBC_SHA256 = tls.TLS_ECDHE_ECDSA_WITH_AES_128_CBC_SHA256
	TLS_ECDHE_ECDSA_WITH_AES_128_GCM_SHA256 = tls.TLS_ECDHE_ECDSA_WITH_AES_128_GCM_SHA256
)

func X509KeyPair(certPEM, keyPEM []byte) (Certificate, error) { return tls.X509KeyPair(certPEM, keyPEM) }

// Conn is the TLS layer of a fake connection.
type Conn struct {
	State  ConnectionState
	Local  string
	Remote string
}

var _ net.Conn = (*Conn)(nil)

func (c *Conn) ConnectionState() ConnectionState   { return c.State }
func (c *Conn) Read([]byte) (int, error)           { return 0, errors.New("faketls: raw read not modelled") }
func (c *Conn) Write(b []byte) (int, error)        { return len(b), nil }
func (c *Conn) Close() error                       { return nil }
func (c *Conn) LocalAddr() net.Addr                { return addr(c.Local) }
func (c *Conn) RemoteAddr() net.Addr               { return addr(c.Remote) }
func (c *Conn) SetDeadline(time.Time) error        { return nil }
func (c *Conn) SetReadDeadline(time.Time) error    { return nil }
func (c *Conn) SetWriteDeadline(time.Time) error   { return nil }
func (c *Conn) Handshake() error                   { return nil }
func (c *Conn) VerifyHostname(string) error        { return nil }

type addr string

func (a addr) Network() string { return "fake" }
func (a addr) String() string  { return string(a) }
