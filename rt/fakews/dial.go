package fakews

import (
	"crypto/x509"
	"errors"
	"fmt"
	"net/url"
	"time"

	"github.com/enbility/ship-go/zzverif/fakehttp"
	"github.com/enbility/ship-go/zzverif/faketls"
	"github.com/enbility/ship-go/zzverif/simrt"
)

// Upgrader is the model of websocket.Upgrader.
type Upgrader struct {
	HandshakeTimeout  time.Duration
	ReadBufferSize    int
	WriteBufferSize   int
	Subprotocols      []string
	CheckOrigin       func(r *fakehttp.Request) bool
	EnableCompression bool
}

// serverSide is the ResponseWriter handed to the handler of an incoming fake connection.
type serverSide struct {
	conn     *Conn
	offered  []string
	upgraded bool
	finished bool
	status   int
	hdr      fakehttp.Header
	h        uint64
}

func (s *serverSide) Header() fakehttp.Header   { return s.hdr }
func (s *serverSide) Write(b []byte) (int, error) { return len(b), nil }
func (s *serverSide) WriteHeader(code int)      { s.status = code }

func (u *Upgrader) Upgrade(w fakehttp.ResponseWriter, r *fakehttp.Request, responseHeader fakehttp.Header) (*Conn, error) {
	ss, ok := w.(*serverSide)
	if !ok {
		return nil, errors.New("websocket: response does not implement http.Hijacker")
	}
	simrt.BlockOn("ws.Upgrade", []*uint64{&ss.h}, nil)
	if u.CheckOrigin != nil && !u.CheckOrigin(r) {
		ss.status = 403
		return nil, errors.New("websocket: request origin not allowed by Upgrader.CheckOrigin")
	}
	// gorilla: the first of the client's protocols that the server supports
	sub := ""
	for _, sp := range u.Subprotocols {
		for _, cp := range ss.offered {
			if sp == cp && sub == "" {
				sub = sp
			}
		}
	}
	ss.conn.subprotocol = sub
	ss.conn.peer.subprotocol = sub
	ss.upgraded = true
	return ss.conn, nil
}

// Dialer is the model of websocket.Dialer.
type Dialer struct {
	Proxy             func(*fakehttp.Request) (*url.URL, error)
	HandshakeTimeout  time.Duration
	TLSClientConfig   *faketls.Config
	Subprotocols      []string
	ReadBufferSize    int
	WriteBufferSize   int
	EnableCompression bool
}

// Link is one established fake connection (for harness-side fault injection and inspection).
type Link struct {
	Client, Server *Conn
	ClientSKI      string
	ServerPort     string
	At             time.Duration
}

type links struct{ all []*Link }

func reg() *links { return simrt.Local("fakews.links", func() any { return &links{} }).(*links) }

// Links lists all connections established in the current execution.
func Links() []*Link { return reg().all }

// DialFault, if set (per execution via SetDialFault), lets the harness fail individual dials.
type dialCtl struct{ fail func(port string, n int) bool; n int }

func ctl() *dialCtl { return simrt.Local("fakews.dialctl", func() any { return &dialCtl{} }).(*dialCtl) }

func SetDialFault(f func(port string, n int) bool) { ctl().fail = f }

func leafOf(c *faketls.Config) (*x509.Certificate, [][]byte) {
	if c == nil || len(c.Certificates) == 0 || len(c.Certificates[0].Certificate) == 0 {
		return nil, nil
	}
	leaf, err := x509.ParseCertificate(c.Certificates[0].Certificate[0])
	if err != nil {
		return nil, c.Certificates[0].Certificate
	}
	return leaf, c.Certificates[0].Certificate
}

func (d *Dialer) Dial(urlStr string, requestHeader fakehttp.Header) (*Conn, *fakehttp.Response, error) {
	u, err := url.Parse(urlStr)
	if err != nil {
		return nil, nil, err
	}
	port := u.Port()
	simrt.Yield("ws.Dial " + port)
	if l := latency(); l > 0 {
		sleep(2 * l) // TCP + TLS round trips take time: concurrent dials of two hubs overlap
	}
	cleaf, craw := leafOf(d.TLSClientConfig)
	from := ""
	if cleaf != nil {
		from = fmt.Sprintf("%x", cleaf.SubjectKeyId)
	}
	c := ctl()
	c.n++
	srv := fakehttp.Lookup(port)
	if srv == nil || (c.fail != nil && c.fail(port, c.n)) {
		fakehttp.RecordDial(fakehttp.Dial{At: simrt.Elapsed(), From: from, Port: port, Refused: true})
		// a failing connection attempt takes (virtual) time; without it a retry loop without back-off
		// would never let the clock advance
		sleep(50 * time.Millisecond)
		return nil, nil, fmt.Errorf("dial tcp %s: connect: connection refused", u.Host)
	}
	fakehttp.RecordDial(fakehttp.Dial{At: simrt.Elapsed(), From: from, Port: port})
	// ---- TLS handshake on the real certificates ----
	sleaf, _ := leafOf(srv.TLSConfig)
	if srv.TLSConfig != nil {
		if srv.TLSConfig.ClientAuth >= faketls.RequireAnyClientCert && cleaf == nil {
			return nil, nil, errors.New("remote error: tls: certificate required")
		}
		if srv.TLSConfig.VerifyPeerCertificate != nil && craw != nil {
			if err := srv.TLSConfig.VerifyPeerCertificate(craw, nil); err != nil {
				return nil, nil, errors.New("remote error: tls: bad certificate")
			}
		}
	}
	if d.TLSClientConfig != nil && d.TLSClientConfig.VerifyPeerCertificate != nil && srv.TLSConfig != nil && len(srv.TLSConfig.Certificates) > 0 {
		if err := d.TLSClientConfig.VerifyPeerCertificate(srv.TLSConfig.Certificates[0].Certificate, nil); err != nil {
			return nil, nil, err
		}
	}
	a, b := Pipe("c:"+from+">"+port, "s:"+port+"<"+from)
	cstate := faketls.ConnectionState{Version: faketls.VersionTLS13, HandshakeComplete: true}
	if sleaf != nil {
		cstate.PeerCertificates = []*x509.Certificate{sleaf}
	}
	a.underlying = &faketls.Conn{State: cstate, Local: from, Remote: port}
	sstate := faketls.ConnectionState{Version: faketls.VersionTLS13, HandshakeComplete: true}
	if cleaf != nil {
		sstate.PeerCertificates = []*x509.Certificate{cleaf}
	}
	b.underlying = &faketls.Conn{State: sstate, Local: port, Remote: from}
	ss := &serverSide{conn: b, offered: d.Subprotocols, hdr: fakehttp.Header{}, h: simrt.HashString("upgrade:" + a.Name)}
	req := &fakehttp.Request{Method: "GET", URL: u, Header: fakehttp.Header{}, Host: u.Host, RemoteAddr: from, TLS: &sstate}
	if requestHeader != nil {
		req.Header = requestHeader
	}
	h := srv.Handler
	simrt.Go("http.serve:"+port, func() {
		h.ServeHTTP(ss, req)
		simrt.TouchCell(&ss.h)
		ss.finished = true
	})
	simrt.BlockOn("ws.Dial(wait upgrade)", []*uint64{&ss.h}, func() bool { return ss.upgraded || ss.finished })
	if !ss.upgraded {
		return nil, fakehttp.NewResponse(400), ErrBadHandshake
	}
	r := reg()
	r.all = append(r.all, &Link{Client: a, Server: b, ClientSKI: from, ServerPort: port, At: simrt.Elapsed()})
	return a, fakehttp.NewResponse(101), nil
}

func sleep(d time.Duration) {
	done := false
	simrt.NewTimer(d, 0, "ws-dial-latency", func() { done = true })
	simrt.Block("ws.Dial(latency)", func() bool { return done })
}
