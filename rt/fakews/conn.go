// Package fakews replaces github.com/gorilla/websocket in instrumented code: an in-memory
// websocket whose blocking operations are simrt scheduling points, with deadlines on virtual
// time and fault choice points. It models the gorilla behaviour ship-go depends on: control
// frame handling inside ReadMessage, permanent read errors, close handshake, write-after-close
// errors and the concurrent-writer panic.
package fakews

import (
	"errors"
	"fmt"
	"net"
	"strconv"
	"time"

	"github.com/enbility/ship-go/zzverif/simrt"
)

const (
	TextMessage   = 1
	BinaryMessage = 2
	CloseMessage  = 8
	PingMessage   = 9
	PongMessage   = 10
)

const (
	CloseNormalClosure           = 1000
	CloseGoingAway               = 1001
	CloseProtocolError           = 1002
	CloseUnsupportedData         = 1003
	CloseNoStatusReceived        = 1005
	CloseAbnormalClosure         = 1006
	CloseInvalidFramePayloadData = 1007
	ClosePolicyViolation         = 1008
	CloseMessageTooBig           = 1009
	CloseMandatoryExtension      = 1010
	CloseInternalServerErr       = 1011
	CloseServiceRestart          = 1012
	CloseTryAgainLater           = 1013
	CloseTLSHandshake            = 1015
)

var ErrCloseSent = errors.New("websocket: close sent")
var ErrReadLimit = errors.New("websocket: read limit exceeded")
var ErrBadHandshake = errors.New("websocket: bad handshake")

type CloseError struct {
	Code int
	Text string
}

func (e *CloseError) Error() string {
	return "websocket: close " + strconv.Itoa(e.Code) + " " + e.Text
}

func IsCloseError(err error, codes ...int) bool {
	if e, ok := err.(*CloseError); ok {
		for _, c := range codes {
			if e.Code == c {
				return true
			}
		}
	}
	return false
}

func IsUnexpectedCloseError(err error, expected ...int) bool {
	if e, ok := err.(*CloseError); ok {
		for _, c := range expected {
			if e.Code == c {
				return false
			}
		}
		return true
	}
	return false
}

func FormatCloseMessage(code int, text string) []byte {
	if code == CloseNoStatusReceived {
		return []byte{}
	}
	b := make([]byte, 2+len(text))
	b[0], b[1] = byte(code>>8), byte(code)
	copy(b[2:], text)
	return b
}

type timeoutErr struct{ op string }

func (e *timeoutErr) Error() string   { return e.op + ": i/o timeout" }
func (e *timeoutErr) Timeout() bool   { return true }
func (e *timeoutErr) Temporary() bool { return true }

var _ net.Error = (*timeoutErr)(nil)

// Frame is one websocket frame in flight.
type Frame struct {
	Type int
	Data []byte
	at   time.Duration // virtual time from which the frame can be read (network latency)
	buffered bool      // had already arrived when the socket was closed locally (may sit in the read buffer)
}

// SetLatency makes every frame written from now on readable only d later (per execution).
func SetLatency(d time.Duration) {
	simrt.Local("fakews.latency", func() any { return new(time.Duration) })
	*(simrt.Local("fakews.latency", nil).(*time.Duration)) = d
}

func latency() time.Duration {
	return *(simrt.Local("fakews.latency", func() any { return new(time.Duration) }).(*time.Duration))
}

func (f Frame) String() string {
	d := f.Data
	if len(d) > 40 {
		d = d[:40]
	}
	return fmt.Sprintf("%d:%q", f.Type, string(d))
}

// Conn is one end of an in-memory websocket.
type Conn struct {
	Name string
	peer *Conn
	h    uint64 // happens-before hash cell of this end's inbox

	inbox []Frame

	// local state
	closed      bool // Close() called locally
	CloseCalls  int
	readErr     error
	writeErr    error
	closeSent   bool
	linkDown    bool // the transport failed (fault) or the peer went away abruptly
	blackhole   bool // the path is dead but nobody knows yet: writes succeed, nothing arrives (half-open connection)
	peerGone    bool // peer called Close(): EOF after the inbox is drained
	isWriting   bool
	subprotocol string
	underlying  net.Conn

	readDeadline  time.Duration // virtual absolute; 0 = none
	writeDeadline time.Duration
	rdTimer       *simrt.Timer
	hasRD         bool

	pingHandler  func(string) error
	pongHandler  func(string) error
	closeHandler func(int, string) error

	// harness controls
	FaultReads   bool // every ReadMessage call is a fault choice point
	FaultWrites  bool // every transport write is a fault choice point
	StallWrites  func(f Frame) bool // if set and returns true the write blocks until Unstall
	stalled      bool
	Sent         []Frame // everything this end wrote successfully (in order)
	Reads        int
	Writes       int
	ReadFaultAt  int // 1-based index of the ReadMessage call that fails (0 = none)
	WriteFaultAt int // 1-based index of the transport write that fails (0 = none)
	// WriteFaultSoft: the injected write failure leaves the receiving direction intact (gorilla keeps failing every
	// later write of the connection, reads go on working): a send buffer that timed out, a half-closed socket
	WriteFaultSoft bool
	WriteFaulted   bool // the injected write failure has happened
}

// Pipe creates a connected pair.
func Pipe(a, b string) (*Conn, *Conn) {
	x, y := &Conn{Name: a}, &Conn{Name: b}
	x.peer, y.peer = y, x
	x.h, y.h = simrt.HashString("ws:"+a), simrt.HashString("ws:"+b)
	return x, y
}

func (c *Conn) Peer() *Conn { return c.peer }

func (c *Conn) Subprotocol() string         { return c.subprotocol }
func (c *Conn) SetSubprotocol(s string)     { c.subprotocol = s }
func (c *Conn) UnderlyingConn() net.Conn    { return c.underlying }
func (c *Conn) SetUnderlying(n net.Conn)    { c.underlying = n }
func (c *Conn) LocalAddr() net.Addr         { return addr(c.Name) }
func (c *Conn) RemoteAddr() net.Addr        { return addr(c.peer.Name) }
func (c *Conn) SetReadLimit(int64)          {}
func (c *Conn) EnableWriteCompression(bool) {}
func (c *Conn) IsClosed() bool              { return c.closed }
func (c *Conn) InboxLen() int               { return len(c.inbox) }

type addr string

func (a addr) Network() string { return "fake" }
func (a addr) String() string  { return string(a) }

func (c *Conn) SetPingHandler(h func(string) error)       { c.pingHandler = h }
func (c *Conn) SetPongHandler(h func(string) error)       { c.pongHandler = h }
func (c *Conn) SetCloseHandler(h func(int, string) error) { c.closeHandler = h }
func (c *Conn) PongHandler() func(string) error           { return c.pongHandler }

func vnow() time.Duration { return simrt.Elapsed() }

var epoch = time.Date(2024, 1, 1, 0, 0, 0, 0, time.UTC)

func toVirtual(t time.Time) (time.Duration, bool) {
	if t.IsZero() {
		return 0, false
	}
	return t.Sub(epoch), true
}

func (c *Conn) SetReadDeadline(t time.Time) error {
	if c.rdTimer != nil {
		c.rdTimer.Stop()
		c.rdTimer = nil
	}
	d, ok := toVirtual(t)
	c.hasRD = ok
	c.readDeadline = d
	if ok {
		// a timer whose only effect is to let virtual time reach the deadline
		c.rdTimer = simrt.NewTimer(d-vnow(), 0, "ws-read-deadline:"+c.Name, func() {})
	}
	return nil
}

func (c *Conn) SetWriteDeadline(t time.Time) error {
	d, _ := toVirtual(t)
	c.writeDeadline = d
	return nil
}

// Close closes the underlying connection without a close handshake.
func (c *Conn) Close() error {
	simrt.BlockOn("ws.Close "+c.Name, []*uint64{&c.h, &c.peer.h}, nil)
	c.CloseCalls++
	if c.closed {
		return errors.New("use of closed network connection")
	}
	c.closed = true
	if c.rdTimer != nil {
		c.rdTimer.Stop()
	}
	// frames that arrived before the close may already be in the connection's read buffer: a read that is
	// in progress can still return them successfully after the close
	for i := range c.inbox {
		if c.inbox[i].at <= vnow() {
			c.inbox[i].buffered = true
		}
	}
	if !c.blackhole {
		// on a dead path the FIN / RST never reaches the peer: it keeps its end until its own timers notice
		c.peer.peerGone = true
	}
	return nil
}

func (c *Conn) readable() bool {
	return (len(c.inbox) > 0 && c.inbox[0].at <= vnow()) || c.closed || (c.peerGone && len(c.inbox) == 0) || c.linkDown || c.readErr != nil ||
		(c.hasRD && vnow() >= c.readDeadline)
}

// ReadMessage blocks for the next data message; control frames are handled internally.
func (c *Conn) ReadMessage() (int, []byte, error) {
	for {
		if c.readErr != nil {
			simrt.BlockOn("ws.Read(err) "+c.Name, []*uint64{&c.h}, nil)
			return 0, nil, c.readErr
		}
		c.Reads++
		if c.ReadFaultAt == c.Reads || (c.FaultReads && simrt.Choose("ws-read-fault:"+c.Name, 2) == 1) {
			c.linkDown = true
			c.peer.linkDown = true
			c.readErr = &net.OpError{Op: "read", Net: "fake", Err: errors.New("connection reset by peer (injected)")}
			return 0, nil, c.readErr
		}
		simrt.BlockOn("ws.Read "+c.Name, []*uint64{&c.h}, c.readable)
		switch {
		case c.closed:
			if len(c.inbox) > 0 && c.inbox[0].buffered && (c.inbox[0].Type == TextMessage || c.inbox[0].Type == BinaryMessage) &&
				simrt.ChooseFree("ws-read-from-buffer-after-close:"+c.Name, 2) == 1 {
				f := c.inbox[0]
				c.inbox = c.inbox[1:]
				return f.Type, f.Data, nil
			}
			c.readErr = &net.OpError{Op: "read", Net: "fake", Err: errors.New("use of closed network connection")}
			return 0, nil, c.readErr
		case c.linkDown:
			c.readErr = &net.OpError{Op: "read", Net: "fake", Err: errors.New("connection reset by peer")}
			return 0, nil, c.readErr
		case len(c.inbox) > 0 && c.inbox[0].at <= vnow():
			f := c.inbox[0]
			c.inbox = c.inbox[1:]
			switch f.Type {
			case TextMessage, BinaryMessage:
				return f.Type, f.Data, nil
			case PingMessage:
				if c.pingHandler != nil {
					if err := c.pingHandler(string(f.Data)); err != nil {
						c.readErr = err
						return 0, nil, err
					}
				} else {
					_ = c.writeFrame(Frame{Type: PongMessage, Data: f.Data}, true)
				}
			case PongMessage:
				if c.pongHandler != nil {
					if err := c.pongHandler(string(f.Data)); err != nil {
						c.readErr = err
						return 0, nil, err
					}
				}
			case CloseMessage:
				code, text := CloseNoStatusReceived, ""
				if len(f.Data) >= 2 {
					code = int(f.Data[0])<<8 | int(f.Data[1])
					text = string(f.Data[2:])
				}
				if c.closeHandler != nil {
					if err := c.closeHandler(code, text); err != nil {
						c.readErr = err
						return 0, nil, err
					}
				} else {
					_ = c.writeFrame(Frame{Type: CloseMessage, Data: FormatCloseMessage(code, "")}, true)
				}
				c.readErr = &CloseError{Code: code, Text: text}
				return 0, nil, c.readErr
			default:
				c.readErr = errors.New("websocket: unknown opcode " + strconv.Itoa(f.Type))
				return 0, nil, c.readErr
			}
		case c.peerGone:
			c.readErr = &CloseError{Code: CloseAbnormalClosure, Text: "unexpected EOF"}
			return 0, nil, c.readErr
		default: // deadline
			c.readErr = &net.OpError{Op: "read", Net: "fake", Err: &timeoutErr{"read"}}
			return 0, nil, c.readErr
		}
	}
}

// NextReader is not used by ship-go; provided for completeness of the common API.
func (c *Conn) WriteControl(messageType int, data []byte, deadline time.Time) error {
	return c.writeFrame(Frame{Type: messageType, Data: append([]byte(nil), data...)}, true)
}

func (c *Conn) WriteMessage(messageType int, data []byte) error {
	// gorilla's WriteMessage runs every frame type (also close and ping) through flushFrame, which panics on
	// overlapping writers; only WriteControl (and the automatic pong / close replies) is safe concurrently
	// the socket reads the caller's bytes now: a caller that reuses the slice for the next frame while this one is
	// still queued or being written races with this read (seen by the access build's race detector)
	simrt.RdElems(data, "websocket frame bytes handed to WriteMessage")
	return c.writeFrame(Frame{Type: messageType, Data: append([]byte(nil), data...)}, false)
}

func (c *Conn) WriteJSON(v any) error { return errors.New("fakews: WriteJSON not modelled") }

func (c *Conn) writeFrame(f Frame, control bool) error {
	// like gorilla: detect concurrent writers (WriteMessage / NextWriter; not WriteControl)
	if !control {
		if c.isWriting {
			panic("concurrent write to websocket connection")
		}
		c.isWriting = true
		defer func() { c.isWriting = false }()
	}
	if control && c.stalled {
		// WriteControl has a deadline of its own: on a connection that makes no progress it gives up
		return &net.OpError{Op: "write", Net: "fake", Err: errTimeout{}}
	}
	simrt.BlockOn("ws.Write "+c.Name, []*uint64{&c.h, &c.peer.h}, func() bool { return !c.stalled || c.closed || c.writeErr != nil })
	if c.StallWrites != nil && c.StallWrites(f) {
		c.stalled = true
		// a write that makes no progress fails when the write deadline passes (net.Conn semantics); gorilla
		// then keeps failing every later write
		expired := false
		if c.writeDeadline > vnow() {
			simrt.NewTimer(c.writeDeadline-vnow(), 0, "ws-write-deadline:"+c.Name, func() { expired = true })
		}
		simrt.BlockOn("ws.Write(stalled) "+c.Name, []*uint64{&c.h, &c.peer.h}, func() bool { return !c.stalled || c.closed || expired })
		if expired && c.stalled && !c.closed {
			c.writeErr = &net.OpError{Op: "write", Net: "fake", Err: errTimeout{}}
			return c.writeErr
		}
	}
	if c.writeErr != nil {
		return c.writeErr
	}
	if c.closed {
		c.writeErr = &net.OpError{Op: "write", Net: "fake", Err: errors.New("use of closed network connection")}
		return c.writeErr
	}
	if c.closeSent {
		return ErrCloseSent
	}
	c.Writes++
	if c.WriteFaultAt == c.Writes && c.WriteFaultSoft {
		c.WriteFaulted = true
		c.writeErr = &net.OpError{Op: "write", Net: "fake", Err: errors.New("write failed, receiving direction intact (injected)")}
		return c.writeErr
	}
	if c.WriteFaultAt == c.Writes || (c.FaultWrites && simrt.Choose("ws-write-fault:"+c.Name, 2) == 1) {
		c.WriteFaulted = true
		c.linkDown = true
		c.peer.linkDown = true
		c.writeErr = &net.OpError{Op: "write", Net: "fake", Err: errors.New("broken pipe (injected)")}
		return c.writeErr
	}
	if c.linkDown {
		c.writeErr = &net.OpError{Op: "write", Net: "fake", Err: errors.New("broken pipe")}
		return c.writeErr
	}
	if f.Type == CloseMessage {
		c.closeSent = true
	}
	c.Sent = append(c.Sent, f)
	if !c.peer.closed && !c.blackhole {
		if l := latency(); l > 0 {
			f.at = vnow() + l
			// a timer whose only effect is to let virtual time reach the arrival time
			simrt.NewTimer(l, 0, "ws-latency", func() {})
		}
		c.peer.inbox = append(c.peer.inbox, f)
	}
	return nil
}

// Unstall releases a stalled transport write.
func (c *Conn) Unstall() { c.stalled = false; c.StallWrites = nil }

// Inject puts a frame into this end's inbox as if the peer had sent it (raw adversarial peer).
func (c *Conn) Inject(f Frame) {
	simrt.TouchCell(&c.h)
	c.inbox = append(c.inbox, f)
}

// Blackhole makes the path between the two ends swallow every frame in both directions without any error
// (a half-open connection: cable pulled, peer power-cycled).
func (c *Conn) Blackhole() {
	simrt.TouchCell(&c.h)
	simrt.TouchCell(&c.peer.h)
	c.blackhole = true
	c.peer.blackhole = true
}

// CutLink makes the transport fail in both directions (abrupt loss).
func (c *Conn) CutLink() {
	simrt.TouchCell(&c.h)
	simrt.TouchCell(&c.peer.h)
	c.linkDown = true
	c.peer.linkDown = true
}

type errTimeout struct{}

func (errTimeout) Error() string   { return "i/o timeout" }
func (errTimeout) Timeout() bool   { return true }
func (errTimeout) Temporary() bool { return true }
