// Package srand replaces "math/rand" in instrumented code: random draws are enumerated choices.
package srand

import "github.com/enbility/ship-go/zzverif/simrt"

// Mode selects how many representatives of [0,n) are offered: 2 = {0,n-1}, 3 = {0,n-1,n/2}.
var Mode = 2

func pick(n int) int {
	if n <= 1 {
		return 0
	}
	opts := []int{0, n - 1}
	if Mode >= 3 && n > 2 {
		opts = append(opts, n/2)
	}
	return opts[simrt.ChooseFree("rand", len(opts))]
}

func Intn(n int) int {
	if n <= 0 {
		panic("invalid argument to Intn")
	}
	return pick(n)
}
func Int63n(n int64) int64 { return int64(pick(int(n))) }
func Int31n(n int32) int32 { return int32(pick(int(n))) }
func Int() int             { return pick(1 << 30) }
func Float64() float64     { return float64(pick(2)) * 0.999 }
func Seed(int64)           {}
func Perm(n int) []int {
	p := make([]int, n)
	for i := range p {
		p[i] = i
	}
	return p
}
func Shuffle(n int, swap func(i, j int)) {}
