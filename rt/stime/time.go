// Package stime replaces "time" in instrumented code: a virtual clock owned by simrt.
package stime

import (
	"time"

	"github.com/enbility/ship-go/zzverif/simrt"
)

type Duration = time.Duration
type Time = time.Time
type Month = time.Month
type Weekday = time.Weekday
type Location = time.Location

const (
	Nanosecond  = time.Nanosecond
	Microsecond = time.Microsecond
	Millisecond = time.Millisecond
	Second      = time.Second
	Minute      = time.Minute
	Hour        = time.Hour
)

const (
	RFC3339     = time.RFC3339
	RFC3339Nano = time.RFC3339Nano
	RFC1123     = time.RFC1123
)

var UTC = time.UTC
var Local = time.Local

var epoch = time.Date(2024, 1, 1, 0, 0, 0, 0, time.UTC)

func Now() Time                         { return epoch.Add(simrt.Elapsed()) }
func Since(t Time) Duration             { return Now().Sub(t) }
func Until(t Time) Duration             { return t.Sub(Now()) }
func Unix(sec, nsec int64) Time         { return time.Unix(sec, nsec) }
func UnixMilli(ms int64) Time           { return time.UnixMilli(ms) }
func ParseDuration(s string) (Duration, error) { return time.ParseDuration(s) }
func Parse(layout, value string) (Time, error) { return time.Parse(layout, value) }
func Date(year int, month Month, day, hour, min, sec, nsec int, loc *Location) Time {
	return time.Date(year, month, day, hour, min, sec, nsec, loc)
}

func Sleep(d Duration) {
	if !simrt.Active() {
		return
	}
	<-After(d)
}

// After returns a channel (identity only) on which the virtual timer delivers.
func After(d Duration) <-chan Time {
	ch := make(chan Time, 1)
	tm := simrt.NewTimer(d, 0, "", func() { simrt.PushTimerChan(ch, Now()) })
	simrt.BindTimerChan(ch, tm)
	return chanRecv(ch)
}

func chanRecv(ch chan Time) <-chan Time { return ch }

func Tick(d Duration) <-chan Time { return NewTicker(d).C }

type Timer struct {
	C  <-chan Time
	ch chan Time
	t  *simrt.Timer
}

func NewTimer(d Duration) *Timer {
	ch := make(chan Time, 1)
	t := &Timer{C: ch, ch: ch}
	t.t = simrt.NewTimer(d, 0, "", func() { simrt.PushTimerChan(ch, Now()) })
	return t
}

func AfterFunc(d Duration, f func()) *Timer {
	t := &Timer{}
	t.t = simrt.NewTimer(d, 0, "", func() { simrt.SpawnFromTimer("AfterFunc", f) })
	return t
}

func (t *Timer) Stop() bool            { return t.t.Stop() }
func (t *Timer) Reset(d Duration) bool { return t.t.Reset(d) }

type Ticker struct {
	C  <-chan Time
	ch chan Time
	t  *simrt.Timer
}

func NewTicker(d Duration) *Ticker {
	if d <= 0 {
		panic("non-positive interval for NewTicker")
	}
	ch := make(chan Time, 1)
	tk := &Ticker{C: ch, ch: ch}
	tk.t = simrt.NewTimer(d, d, "", func() { simrt.PushTimerChan(ch, Now()) })
	return tk
}

func (t *Ticker) Stop()            { t.t.Stop() }
func (t *Ticker) Reset(d Duration) { t.t.Reset(d) }
