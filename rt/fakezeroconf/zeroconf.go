// Package fakezeroconf replaces github.com/enbility/zeroconf/v2: Register/Browse over a shared
// in-memory "ether" (per execution); deliveries run on their own sim threads.
package fakezeroconf

import (
	"context"
	"fmt"
	"net"

	"github.com/enbility/ship-go/zzverif/simrt"
)

type ServiceRecord struct {
	Instance string
	Service  string
	Domain   string
}

type ServiceEntry struct {
	ServiceRecord
	HostName string
	Port     int
	Text     []string
	TTL      uint32
	AddrIPv4 []net.IP
	AddrIPv6 []net.IP
}

type ServerOption func(*serverOpts)
type ClientOption func(*clientOpts)
type serverOpts struct{ ttl uint32 }
type clientOpts struct{}

func TTL(ttl uint32) ServerOption { return func(o *serverOpts) { o.ttl = ttl } }

type Server struct {
	e     *Ether
	entry *ServiceEntry
	live  bool
}

type browser struct {
	id      int
	ctx     context.Context
	entries chan<- *ServiceEntry
	removed chan<- *ServiceEntry
	gone    bool
}

// Ether is the shared medium of one execution.
type Ether struct {
	servers  []*Server
	browsers []*browser
	// Auto: announcements and removals are delivered to all browsers automatically (default true)
	Auto bool
	// Registered logs every Register call (harness observation)
	Registered []*ServiceEntry
	Shutdowns  int
	nextIP     int
	h          uint64
}

func TheEther() *Ether {
	return simrt.Local("fakezeroconf.ether", func() any { return &Ether{Auto: true} }).(*Ether)
}

func copyEntry(e *ServiceEntry) *ServiceEntry {
	c := *e
	c.Text = append([]string(nil), e.Text...)
	c.AddrIPv4 = append([]net.IP(nil), e.AddrIPv4...)
	c.AddrIPv6 = append([]net.IP(nil), e.AddrIPv6...)
	return &c
}

func (e *Ether) deliver(b *browser, entry *ServiceEntry, remove bool) {
	cp := copyEntry(entry)
	simrt.Go("mdns.deliver", func() {
		if b.gone {
			return
		}
		if remove {
			simrt.Send(b.removed, cp)
		} else {
			simrt.Send(b.entries, cp)
		}
	})
}

// Inject delivers an arbitrary entry to every browser (adversarial / scripted mDNS traffic).
func (e *Ether) Inject(entry *ServiceEntry, remove bool) {
	simrt.TouchCell(&e.h)
	for _, b := range e.browsers {
		if !b.gone {
			e.deliver(b, entry, remove)
		}
	}
}

// Live lists the currently announced entries.
func (e *Ether) Live() []*ServiceEntry {
	var out []*ServiceEntry
	for _, s := range e.servers {
		if s.live {
			out = append(out, s.entry)
		}
	}
	return out
}

// Reannounce delivers all live announcements again to all browsers (periodic mDNS refresh).
func (e *Ether) Reannounce() {
	for _, s := range e.servers {
		if s.live {
			e.Inject(s.entry, false)
		}
	}
}

func Register(instance, service, domain string, port int, text []string, ifaces []net.Interface, opts ...ServerOption) (*Server, error) {
	e := TheEther()
	simrt.BlockOn("zeroconf.Register", []*uint64{&e.h}, nil)
	o := serverOpts{}
	for _, f := range opts {
		f(&o)
	}
	e.nextIP++
	entry := &ServiceEntry{ServiceRecord: ServiceRecord{Instance: instance, Service: service, Domain: domain},
		HostName: fmt.Sprintf("host%d.local.", port), Port: port, Text: append([]string(nil), text...), TTL: o.ttl,
		AddrIPv4: []net.IP{net.IPv4(10, 0, 0, byte(port%250+1))}}
	s := &Server{e: e, entry: entry, live: true}
	e.servers = append(e.servers, s)
	e.Registered = append(e.Registered, copyEntry(entry))
	if e.Auto {
		for _, b := range e.browsers {
			if !b.gone {
				e.deliver(b, entry, false)
			}
		}
	}
	return s, nil
}

func (s *Server) Shutdown() {
	e := s.e
	simrt.BlockOn("zeroconf.Shutdown", []*uint64{&e.h}, nil)
	if !s.live {
		return
	}
	s.live = false
	e.Shutdowns++
	if e.Auto {
		for _, b := range e.browsers {
			if !b.gone {
				e.deliver(b, s.entry, true)
			}
		}
	}
}

func (s *Server) SetText(text []string) { s.entry.Text = append([]string(nil), text...) }
func (s *Server) TTL(ttl uint32)        {}

func Browse(ctx context.Context, service, domain string, entries chan<- *ServiceEntry, removed chan<- *ServiceEntry, opts ...ClientOption) error {
	e := TheEther()
	simrt.BlockOn("zeroconf.Browse", []*uint64{&e.h}, nil)
	b := &browser{id: len(e.browsers), ctx: ctx, entries: entries, removed: removed}
	e.browsers = append(e.browsers, b)
	if e.Auto {
		for _, s := range e.servers {
			if s.live {
				e.deliver(b, s.entry, false)
			}
		}
	}
	simrt.Recv(ctx.Done())
	b.gone = true
	return nil
}
