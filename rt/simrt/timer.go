package simrt

import (
	"runtime"
	"strings"
	"time"
)

// Timer is a virtual-time timer; firing is an environment event chosen by the scheduler.
type Timer struct {
	h        uint64
	id       int
	deadline time.Duration
	period   time.Duration
	armed    bool
	label    string
	fire     func() // runs in scheduler context; must not block
	ch       *Chan  // channel of a time.After timer
	vc       vclock
}

// TimerInfo describes an armed timer (for canonical state keys and explicit firing in G-mode).
type TimerInfo struct {
	ID      int
	Label   string
	In      time.Duration // relative deadline
	Waiters []int         // ids of the threads waiting on the timer's channel
}

func callerLabel() string {
	// first frame outside simrt / stime / fakes
	pcs := make([]uintptr, 12)
	n := runtime.Callers(3, pcs)
	fr := runtime.CallersFrames(pcs[:n])
	for {
		f, more := fr.Next()
		fn := f.Function
		if !strings.Contains(fn, "/zzverif/simrt") && !strings.Contains(fn, "/zzverif/stime") {
			if i := strings.LastIndex(fn, "/"); i >= 0 {
				fn = fn[i+1:]
			}
			return fn
		}
		if !more {
			break
		}
	}
	return "?"
}

// NewTimer arms a timer d from now; fire runs in scheduler context when it is chosen.
func NewTimer(d time.Duration, period time.Duration, label string, fire func()) *Timer {
	s := cur
	if s == nil {
		return &Timer{}
	}
	if d < 0 {
		d = 0
	}
	if label == "" {
		label = callerLabel()
	}
	s.timerSeq++
	tm := &Timer{id: s.timerSeq, deadline: s.now + d, period: period, armed: !s.aborting, label: label, fire: fire}
	if s.races != nil && s.cur != nil {
		tm.vc = s.races.release(s.cur)
	}
	if s.cur != nil {
		s.cur.h = hmix(s.cur.h, 12, uint64(d))
		tm.h = hmix(s.cur.h, 13)
	}
	s.timers = append(s.timers, tm)
	return tm
}

// Stop disarms the timer; reports whether it was armed.
func (t *Timer) Stop() bool {
	was := t.armed
	if s := cur; s != nil && !s.aborting {
		s.touch(&t.h, 14)
	}
	t.armed = false
	return was
}

// Reset re-arms the timer d from now.
func (t *Timer) Reset(d time.Duration) bool {
	s := cur
	was := t.armed
	if s == nil {
		return was
	}
	t.deadline = s.now + d
	t.armed = !s.aborting
	if !s.aborting {
		s.touch(&t.h, 15)
	}
	found := false
	for _, x := range s.timers {
		if x == t {
			found = true
		}
	}
	if !found {
		s.timers = append(s.timers, t)
	}
	return was
}

func (s *Sched) fire(tm *Timer) {
	if tm.deadline > s.now {
		s.now = tm.deadline
	}
	if tm.period > 0 {
		tm.deadline += tm.period
		if tm.deadline <= s.now {
			tm.deadline = s.now + tm.period
		}
	} else {
		tm.armed = false
	}
	// compact the timer list now and then
	if len(s.timers) > 64 {
		j := 0
		for _, x := range s.timers {
			if x.armed {
				s.timers[j] = x
				j++
			}
		}
		s.timers = s.timers[:j]
	}
	s.firing = tm
	tm.fire()
	s.firing = nil
}

// Timers lists the armed timers in deterministic order.
func Timers() []TimerInfo {
	s := cur
	if s == nil {
		return nil
	}
	var out []TimerInfo
	for _, tm := range s.timers {
		if tm.armed {
			ti := TimerInfo{ID: tm.id, Label: tm.label, In: tm.deadline - s.now}
			if tm.ch != nil {
				for _, w := range tm.ch.recvq {
					ti.Waiters = append(ti.Waiters, w.t.id)
				}
			}
			out = append(out, ti)
		}
	}
	return out
}

// FireTimer fires the armed timer with the given id now (explicit timer event of a G-search);
// the calling thread continues, the effects (a value on a channel, a spawned thread) become visible
// to the scheduler at the next point. Reports whether the timer was armed.
func FireTimer(id int) bool {
	s := cur
	if s == nil {
		return false
	}
	for _, tm := range s.timers {
		if tm.id == id && tm.armed {
			s.fire(tm)
			return true
		}
	}
	return false
}

// PushTimerChan is used by stime: deliver the fire time into the timer's channel model.
func PushTimerChan[T any](ch chan T, v T) {
	s := cur
	if s == nil {
		return
	}
	c := s.chanFor(chanPtr(ch), cap(ch), ch)
	var vc vclock
	if s.firing != nil {
		vc = s.firing.vc
	}
	pushChan(s, c, v, vc)
}

// SpawnFromTimer starts a thread from a timer's fire function (AfterFunc).
func SpawnFromTimer(name string, f func()) {
	s := cur
	if s == nil || s.aborting {
		return
	}
	t := s.spawn(name, f, nil)
	if s.firing != nil {
		t.h = hmix(s.firing.h, 16, uint64(s.now))
	}
	if s.races != nil && s.firing != nil {
		t.vc = join(t.vc, s.firing.vc)
	}
}

// BindTimerChan associates the channel returned by time.After with its timer.
func BindTimerChan[T any](ch chan T, tm *Timer) {
	s := cur
	if s == nil {
		return
	}
	if c := s.chanFor(chanPtr(ch), cap(ch), ch); c != nil {
		c.timer = tm
		tm.ch = c
	}
}
