package simrt

import (
	"fmt"
	"runtime"
	"sort"
	"strings"
	"unsafe"
)

// Happens-before analysis (C20): vector clocks on exactly the synchronisation edges
// simrt implements; instrumented field/map accesses are checked against them.

type vclock []int32

func (v vclock) clone() vclock { return append(vclock(nil), v...) }

func (v vclock) get(i int) int32 {
	if i < len(v) {
		return v[i]
	}
	return 0
}

func join(a, b vclock) vclock {
	if len(b) > len(a) {
		a = append(a, make(vclock, len(b)-len(a))...)
	}
	for i, x := range b {
		if x > a[i] {
			a[i] = x
		}
	}
	return a
}

type accessRec struct {
	tid   int
	clock int32
	pc    uintptr // call site, resolved only when a race is reported
}

type locState struct {
	keep  unsafe.Pointer // keeps the object alive so that its address is not reused within the execution
	w     *accessRec
	reads []accessRec
}

// Race is one detected pair of conflicting, unordered accesses.
type Race struct {
	Loc    string // type.field
	A, B   string // function names (sorted)
	SiteA  string
	SiteB  string
	KindAB string
}

func (r Race) Key() string { return r.Loc + "|" + r.A + "~" + r.B }

type raceState struct {
	locs  map[uintptr]*locState
	races map[string]Race
}

func newRaceState() *raceState {
	return &raceState{locs: map[uintptr]*locState{}, races: map[string]Race{}}
}

func (r *raceState) tick(t *Thread) {
	for len(t.vc) <= t.id {
		t.vc = append(t.vc, 0)
	}
	t.vc[t.id]++
}

func (r *raceState) spawnVC(parent, child *Thread) vclock {
	var vc vclock
	if parent != nil {
		vc = parent.vc.clone()
		r.tick(parent)
	}
	for len(vc) <= child.id {
		vc = append(vc, 0)
	}
	vc[child.id] = 1
	return vc
}

// release returns a copy of t's clock for storing on a sync object and advances t.
func (r *raceState) release(t *Thread) vclock {
	if t == nil {
		return nil
	}
	c := t.vc.clone()
	r.tick(t)
	return c
}

func (r *raceState) acquire(t *Thread, vc vclock) {
	if t == nil || vc == nil {
		return
	}
	t.vc = join(t.vc, vc)
}

// handoff is an unbuffered channel rendezvous: synchronises both ways.
func (r *raceState) handoff(sender, receiver *Thread) {
	j := join(sender.vc.clone(), receiver.vc)
	sender.vc = j.clone()
	receiver.vc = j.clone()
	r.tick(sender)
	r.tick(receiver)
}

func callerPC(skip int) uintptr {
	var pcs [1]uintptr
	if runtime.Callers(skip+1, pcs[:]) == 0 {
		return 0
	}
	return pcs[0]
}

func resolvePC(pc uintptr) (string, string) {
	if pc == 0 {
		return "?", "?"
	}
	fr, _ := runtime.CallersFrames([]uintptr{pc}).Next()
	fn, file, line := fr.Function, fr.File, fr.Line
	if i := strings.LastIndex(fn, "/"); i >= 0 {
		fn = fn[i+1:]
	}
	// strip closure suffixes so that keys survive refactoring of anonymous functions
	for {
		j := strings.LastIndex(fn, ".func")
		if j < 0 {
			break
		}
		fn = fn[:j]
	}
	if i := strings.LastIndex(file, "/"); i >= 0 {
		if k := strings.LastIndex(file[:i], "/"); k >= 0 {
			file = file[k+1:]
		}
	}
	return fn, fmt.Sprintf("%s:%d", file, line)
}

func (s *Sched) access(ptr unsafe.Pointer, loc string, write bool) {
	s.accessAt(ptr, loc, write, 4)
}

func (s *Sched) accessAt(ptr unsafe.Pointer, loc string, write bool, skip int) {
	addr := uintptr(ptr)
	r := s.races
	t := s.cur
	if r == nil || t == nil || s.aborting {
		return
	}
	pc := callerPC(skip)
	ls := r.locs[addr]
	if ls == nil {
		ls = &locState{keep: ptr}
		r.locs[addr] = ls
	}
	me := accessRec{tid: t.id, clock: t.vc.get(t.id), pc: pc}
	report := func(o accessRec, kind string) {
		a, sa := resolvePC(o.pc)
		b, sb := resolvePC(pc)
		if b < a {
			a, b = b, a
			sa, sb = sb, sa
		}
		rc := Race{Loc: loc, A: a, B: b, SiteA: sa, SiteB: sb, KindAB: kind}
		if _, ok := r.races[rc.Key()]; !ok {
			r.races[rc.Key()] = rc
		}
	}
	hb := func(o accessRec) bool { return o.tid == t.id || o.clock <= t.vc.get(o.tid) }
	if ls.w != nil && !hb(*ls.w) {
		if write {
			report(*ls.w, "write/write")
		} else {
			report(*ls.w, "write/read")
		}
	}
	if write {
		for _, rd := range ls.reads {
			if !hb(rd) {
				report(rd, "read/write")
			}
		}
		ls.w = &me
		ls.reads = ls.reads[:0]
	} else {
		for i, rd := range ls.reads {
			if rd.tid == t.id {
				ls.reads[i] = me
				return
			}
		}
		ls.reads = append(ls.reads, me)
	}
}

// Rd logs a read of *p (loc = "Type.field") and returns p; used by the access build.
func Rd[T any](p *T, loc string) *T {
	if s := cur; s != nil && s.cfg.AccessPoints && s.cur != nil && !s.aborting {
		s.park(&op{kind: opBlock, obj: "access " + loc})
	}
	if s := cur; s != nil && s.races != nil {
		s.access(unsafe.Pointer(p), loc, false)
	}
	return p
}

// Wr logs a write of *p and returns p.
func Wr[T any](p *T, loc string) *T {
	if s := cur; s != nil && s.cfg.AccessPoints && s.cur != nil && !s.aborting {
		s.park(&op{kind: opBlock, obj: "access " + loc})
	}
	if s := cur; s != nil && s.races != nil {
		s.access(unsafe.Pointer(p), loc, true)
	}
	return p
}

// Races returns the races detected so far in the current execution, sorted by key.
func Races() []Race {
	s := cur
	if s == nil || s.races == nil {
		return nil
	}
	var out []Race
	for _, r := range s.races.races {
		out = append(out, r)
	}
	sort.Slice(out, func(i, j int) bool { return out[i].Key() < out[j].Key() })
	return out
}

// maxElems bounds the number of elements logged per slice operation (an under-approximation for longer
// slices: payload byte slices are not scanned in full).
const maxElems = 32

func logElems[S ~[]E, E any](s S, from, to int, loc string, write bool) {
	sc := cur
	if sc == nil || sc.races == nil {
		return
	}
	var z E
	if unsafe.Sizeof(z) == 0 {
		return
	}
	if to-from > maxElems {
		to = from + maxElems
	}
	for i := from; i < to; i++ {
		sc.accessAt(unsafe.Pointer(&s[i]), loc, write, 4)
	}
}

// RdElems logs a read of the elements of s (range loops, reading library calls) and returns s.
func RdElems[S ~[]E, E any](s S, loc string) S { logElems(s, 0, len(s), loc, false); return s }

// WrElems logs a write of the elements of s (in-place sorts and the like) and returns s.
func WrElems[S ~[]E, E any](s S, loc string) S { logElems(s, 0, len(s), loc, true); return s }

// WrElemsN logs a write of the first n elements of s (copy) and returns s.
func WrElemsN[S ~[]E, E any](s S, n int, loc string) S {
	if n > len(s) {
		n = len(s)
	}
	logElems(s, 0, n, loc, true)
	return s
}

// AppElems logs what append(s, n more elements) does to the backing array of s: writes behind len(s) while
// the capacity suffices, else a read of all elements (they are copied).
func AppElems[S ~[]E, E any](s S, n int, loc string) S {
	if len(s)+n <= cap(s) {
		logElems(s[:len(s)+n], len(s), len(s)+n, loc, true)
	} else {
		logElems(s, 0, len(s), loc, false)
	}
	return s
}
