// Package simrt is a cooperative, fully controlled runtime for model checking Go
// code whose synchronisation, time and I/O have been redirected to it (by
// tools/vinstr). Exactly one sim thread runs at a time; every visible operation
// is a scheduling point; an execution is determined by its list of choices.
package simrt

import (
	"fmt"
	"os"
	"reflect"
	"runtime"
	"runtime/debug"
	"sort"
	"strings"
	"sync/atomic"
	"time"
)

// Cost classifies why an alternative is a deviation from the default execution.
type Cost uint8

const (
	CostPreempt Cost = 1 << iota // switching away from a still-enabled thread
	CostTimer                    // a timer firing although threads are still enabled / out of deadline order
	CostFault                    // a non-default environment answer (injected fault, data choice)
)

// Point is one recorded choice point (only points with >1 alternatives are recorded).
type Point struct {
	N      int
	Chosen int
	Costs  []Cost
	Focus  []bool // per alternative: admitted by Config.BranchOnly (nil = all)
	Desc   string // description of the chosen alternative (filled only when Cfg.Describe)
}

type PanicInfo struct {
	Thread string
	Value  string
	Stack  string
}

type ThreadInfo struct {
	ID     int
	Name   string
	Done   bool
	OpKind string
	OpObj  string
}

// Exec is the result of one execution.
type Exec struct {
	Points     []Point
	Panic      *PanicInfo
	Failures   []Failure
	Threads    []ThreadInfo
	Steps      int
	Diverged   string
	Now        time.Duration
	TraceLog   []string
	Truncated  bool // step limit hit
	StateKeyAt []uint64
	Outcome    string
	Keys       []uint64 // state key before each recorded point
}

// Failure is a property violation reported by a harness via Fail.
type Failure struct {
	Key string // structural signature (used for known-finding matching)
	Msg string
}

type Config struct {
	Arbitrary bool // arbitrary time mode: any armed timer (<= auto limit) may fire at any point at CostTimer
	// ArbitraryQuiescent: like Arbitrary, but out-of-order timers fire only at instants where no thread is enabled
	// (models timer goroutines waking up late relative to each other)
	ArbitraryQuiescent bool
	Describe  bool // fill Point.Desc and keep a step trace (slow; used for replay output)
	MaxSteps  int  // safety net per execution (0 = 200000)
	Races     bool // maintain vector clocks and check logged accesses (C20)
	// BranchOnly restricts exploration: a non-default alternative is explored only if the thread name
	// or timer label it would run contains one of these substrings (empty = no restriction)
	BranchOnly []string
	// BranchNoStart: with BranchOnly, do not branch on the first scheduling of a freshly spawned thread
	BranchNoStart bool
	// BranchStartOnly: with BranchOnly, branch only on the alternative that gives a freshly spawned thread its
	// first step at the first scheduling point after its spawn (explores "the new goroutine runs before its
	// parent continues", and nothing else)
	BranchStartOnly bool
	// BranchAfterMark: no branching before the body calls Mark() (the set-up part runs under the default schedule only)
	BranchAfterMark bool
	// DelayBounding: every departure from the deterministic default scheduler (not only preemptions, also picking
	// another than the first enabled thread when the running one blocks, and non-default data choices) costs one
	// deviation (Emmi/Qadeer/Rakamaric delay bounding); keeps many-thread harnesses polynomial in the bound
	DelayBounding bool
	// AccessPoints: every logged access (access build) is a scheduling point as well. For tiny scenarios around code
	// without synchronisation (a function with a hoisted scratch variable called from two goroutines).
	AccessPoints bool
}

type opKind uint8

const (
	opStart opKind = iota
	opResume
	opLock
	opRLock
	opOnce
	opWait
	opSelect
	opClose
	opChoose
	opQuiesce
	opBlock
)

var opNames = [...]string{"start", "resume", "lock", "rlock", "once", "wgwait", "chan", "close", "choose", "quiesce", "block"}

type op struct {
	kind  opKind
	ready func() []int // enabled sub-alternatives (nil = always {0})
	n     int          // opChoose: number of options
	costs []Cost       // opChoose: cost per option
	obj   string
	fixed int // opResume: sub to return
	hobjs []*uint64 // objects this operation accesses (happens-before hashing)
}

type Thread struct {
	id      int
	name    string
	wake    chan struct{}
	op      *op
	sub     int
	done    bool
	exiting bool
	daemon  bool
	vc      vclock
	waiters []*waiter
	h       uint64 // hash of this thread's causal history
	offered bool   // BranchStartOnly: this fresh thread was already offered as an alternative once
}

type Sched struct {
	cfg      Config
	threads  []*Thread
	cur      *Thread
	yield    chan struct{}
	now      time.Duration
	timers   []*Timer
	timerSeq int
	chans    map[uintptr]*Chan
	chanSeq  int
	prefix   []int
	pos      int
	points   []Point
	aborting bool
	panicked *PanicInfo
	failures []Failure
	autoLim  time.Duration
	steps    int
	diverged string
	trace    []string
	steplog  []string
	locals   map[string]any
	races    *raceState
	objSeq   int
	firing   *Timer
	outcome  string
	ptrIDs   map[uintptr]int
	touchObjs map[string]*uint64
	world    uint64
	keys     []uint64
	spawnSeq uint64
	marked   bool
}

var cur *Sched // the scheduler of the execution in progress (one per process)

var one = []int{0}

var stepCounter int64 // for the watchdog

// Active reports whether a simulation is in progress.
func Active() bool { return cur != nil && !cur.aborting }

func init() {
	go func() {
		last := int64(-1)
		stuck := 0
		for {
			time.Sleep(2 * time.Second)
			if cur == nil {
				last, stuck = -1, 0
				continue
			}
			c := atomic.LoadInt64(&stepCounter)
			if c == last {
				stuck++
				if stuck >= 10 {
					fmt.Fprintf(os.Stderr, "ENGINE-ERROR: watchdog: no scheduling step for 20s (a sim thread is blocked in a real blocking call or spins)\n")
					buf := make([]byte, 1<<20)
					n := runtime.Stack(buf, true)
					os.Stderr.Write(buf[:n])
					os.Exit(2)
				}
			} else {
				stuck = 0
			}
			last = c
		}
	}()
}

// Run executes body as sim thread 0 under the given choice prefix; choices beyond the prefix are 0.
func Run(cfg Config, prefix []int, body func()) *Exec {
	if cur != nil {
		panic("simrt: nested Run")
	}
	if cfg.MaxSteps == 0 {
		cfg.MaxSteps = 200000
	}
	s := &Sched{cfg: cfg, yield: make(chan struct{}), chans: map[uintptr]*Chan{}, prefix: prefix, locals: map[string]any{}}
	if cfg.Races {
		s.races = newRaceState()
	}
	cur = s
	s.spawn("main", body, nil)
	s.loop()
	x := &Exec{Points: s.points, Panic: s.panicked, Failures: s.failures, Steps: s.steps, Diverged: s.diverged, Now: s.now, TraceLog: s.trace, Outcome: s.outcome, Keys: s.keys}
	if s.steps >= cfg.MaxSteps {
		x.Truncated = true
	}
	for _, t := range s.threads {
		ti := ThreadInfo{ID: t.id, Name: t.name, Done: t.done}
		if t.op != nil {
			ti.OpKind = opNames[t.op.kind]
			ti.OpObj = t.op.obj
		}
		x.Threads = append(x.Threads, ti)
	}
	if cfg.Describe {
		x.TraceLog = append(x.TraceLog, s.steplog...)
	}
	s.abortAll()
	cur = nil
	return x
}

func (s *Sched) spawn(name string, f func(), parent *Thread) *Thread {
	t := &Thread{id: len(s.threads), name: name, wake: make(chan struct{}), op: &op{kind: opStart}}
	if parent != nil {
		parent.h = hmix(parent.h, 0x5a)
		t.h = hmix(parent.h, 0x5b)
	} else {
		s.spawnSeq++
		t.h = hmix(hstr(name), s.spawnSeq)
	}
	if s.races != nil {
		t.vc = s.races.spawnVC(parent, t)
	}
	s.threads = append(s.threads, t)
	if parent != nil {
		for _, h := range spawnHooks {
			h(t.id, name)
		}
	}
	go func() {
		<-t.wake
		defer func() {
			if r := recover(); r != nil {
				if !s.aborting && s.panicked == nil {
					s.panicked = &PanicInfo{Thread: t.name, Value: fmt.Sprint(r), Stack: trimStack(string(debug.Stack()))}
				}
			}
			t.done = true
			t.op = nil
			s.yield <- struct{}{}
		}()
		if s.aborting {
			return
		}
		t.op = nil
		f()
	}()
	return t
}

func trimStack(st string) string {
	lines := strings.Split(st, "\n")
	var out []string
	for i := 0; i < len(lines); i++ {
		l := lines[i]
		if strings.Contains(l, "runtime/debug.Stack") || strings.Contains(l, "runtime/panic.go") || strings.Contains(l, "panic(") && strings.HasPrefix(l, "panic(") {
			i++
			continue
		}
		out = append(out, l)
		if len(out) > 40 {
			break
		}
	}
	return strings.Join(out, "\n")
}

type alt struct {
	t     *Thread
	sub   int
	timer *Timer
	group []*Timer // timers expiring together (timely mode)
	cost  Cost
}

func (s *Sched) computeAlts() []alt {
	var alts []alt
	// local data choice: only the choosing thread's options are offered
	if c := s.cur; c != nil && !c.done && c.op != nil && c.op.kind == opChoose {
		for i := 0; i < c.op.n; i++ {
			alts = append(alts, alt{t: c, sub: i, cost: c.op.costs[i]})
		}
		return alts
	}
	curEnabled := false
	add := func(t *Thread, pre Cost) {
		if t.done || t.op == nil || t.op.kind == opQuiesce {
			return
		}
		subs := one
		if t.op.ready != nil {
			subs = t.op.ready()
		}
		for _, k := range subs {
			alts = append(alts, alt{t: t, sub: k, cost: pre})
		}
	}
	if c := s.cur; c != nil && !c.done {
		add(c, 0)
		curEnabled = len(alts) > 0
	}
	var pre Cost
	if curEnabled {
		pre = CostPreempt
	}
	for _, t := range s.threads {
		if t != s.cur {
			add(t, pre)
		}
	}
	threadsEnabled := len(alts) > 0
	// timers
	var armed []*Timer
	for _, tm := range s.timers {
		if tm.armed && tm.deadline <= s.autoLim {
			armed = append(armed, tm)
		}
	}
	if len(armed) > 0 {
		sort.SliceStable(armed, func(i, j int) bool {
			if armed[i].deadline != armed[j].deadline {
				return armed[i].deadline < armed[j].deadline
			}
			return armed[i].id < armed[j].id
		})
		min := armed[0].deadline
		// timely: all timers that are due at the earliest deadline expire together (one environment step);
		// the order in which the woken threads then run is an ordinary scheduling choice
		if !threadsEnabled {
			var group []*Timer
			for _, tm := range armed {
				if tm.deadline == min {
					group = append(group, tm)
				}
			}
			alts = append(alts, alt{timer: group[0], group: group})
		}
		for _, tm := range armed {
			if !threadsEnabled && tm.deadline == min {
				continue
			}
			if s.cfg.Arbitrary || (s.cfg.ArbitraryQuiescent && !threadsEnabled) {
				alts = append(alts, alt{timer: tm, cost: CostTimer})
			}
		}
	}
	if len(alts) == 0 || (!threadsEnabled && len(armed) == 0) {
		// quiescence waiters run only when nothing else can
		for _, t := range s.threads {
			if !t.done && t.op != nil && t.op.kind == opQuiesce {
				alts = append(alts, alt{t: t})
			}
		}
	}
	return alts
}

func (s *Sched) loop() {
	for {
		if s.panicked != nil || s.diverged != "" {
			return
		}
		if s.steps >= s.cfg.MaxSteps {
			return
		}
		alts := s.computeAlts()
		if len(alts) == 0 {
			return
		}
		choice := 0
		if len(alts) > 1 {
			if s.pos < len(s.prefix) {
				choice = s.prefix[s.pos]
				if choice < 0 || choice >= len(alts) {
					s.diverged = fmt.Sprintf("choice %d out of range (%d alternatives) at point %d", choice, len(alts), s.pos)
					return
				}
			}
			s.pos++
			s.keys = append(s.keys, s.stateKey())
			p := Point{N: len(alts), Chosen: choice, Costs: make([]Cost, len(alts))}
			for i, a := range alts {
				p.Costs[i] = a.cost
				if s.cfg.DelayBounding && i > 0 && a.cost == 0 {
					if a.t != nil && a.t.op != nil && a.t.op.kind == opChoose {
						p.Costs[i] = CostFault
					} else {
						p.Costs[i] = CostPreempt
					}
				}
			}
			if s.cfg.BranchAfterMark && !s.marked {
				p.Focus = make([]bool, len(alts))
			} else if len(s.cfg.BranchOnly) > 0 {
				p.Focus = make([]bool, len(alts))
				for i, a := range alts {
					nm := ""
					if a.timer != nil {
						nm = a.timer.label
					} else if a.t != nil {
						nm = a.t.name
					}
					if s.cfg.BranchNoStart && a.t != nil && a.t.op != nil && a.t.op.kind == opStart {
						continue
					}
					if s.cfg.BranchStartOnly {
						// only at the first point after its spawn
						if !(a.t != nil && a.t.op != nil && a.t.op.kind == opStart) || a.t.offered {
							continue
						}
					}
					for _, sub := range s.cfg.BranchOnly {
						if strings.Contains(nm, sub) {
							p.Focus[i] = true
						}
					}
				}
			}
			if s.cfg.BranchStartOnly {
				for _, a := range alts {
					if a.t != nil && a.t.op != nil && a.t.op.kind == opStart {
						a.t.offered = true
					}
				}
			}
			if s.cfg.Describe {
				p.Desc = s.descAlt(alts[choice])
			}
			s.points = append(s.points, p)
		}
		a := alts[choice]
		s.steps++
		atomic.AddInt64(&stepCounter, 1)
		if s.cfg.Describe {
			s.steplog = append(s.steplog, fmt.Sprintf("t=%v %s", s.now, s.descAlt(a)))
		}
		if a.timer != nil {
			if a.group != nil {
				for _, tm := range a.group {
					if tm.armed {
						s.fire(tm)
					}
				}
			} else {
				s.fire(a.timer)
			}
			continue
		}
		t := a.t
		t.sub = a.sub
		s.cur = t
		t.wake <- struct{}{}
		<-s.yield
	}
}

func (s *Sched) descAlt(a alt) string {
	if a.timer != nil {
		return fmt.Sprintf("timer#%d(%s,+%v)", a.timer.id, a.timer.label, a.timer.deadline)
	}
	o := a.t.op
	if o == nil {
		return fmt.Sprintf("T%d[%s]", a.t.id, a.t.name)
	}
	return fmt.Sprintf("T%d[%s] %s %s sub=%d", a.t.id, a.t.name, opNames[o.kind], o.obj, a.sub)
}

func (s *Sched) abortAll() {
	s.aborting = true
	for _, t := range s.threads {
		if t.done {
			continue
		}
		s.cur = t
		t.wake <- struct{}{}
		<-s.yield
	}
}

// park blocks the current thread at a scheduling point until the scheduler selects it.
func (s *Sched) park(o *op) int {
	t := s.cur
	if s.aborting {
		if t.exiting {
			return 0
		}
		t.exiting = true
		runtime.Goexit()
	}
	t.op = o
	if o != nil {
		// arriving at an operation is progress of this thread (part of its causal history)
		t.h = hmix(t.h, 0x77, uint64(o.kind))
	}
	s.yield <- struct{}{}
	<-t.wake
	if s.aborting {
		t.exiting = true
		runtime.Goexit()
	}
	if t.op != nil && t.op.kind == opResume {
		t.sub = t.op.fixed
	}
	t.op = nil
	if o != nil {
		t.h = hmix(t.h, uint64(o.kind), uint64(int64(t.sub)))
		switch o.kind {
		case opQuiesce:
			// resumes only when nothing else can run: depends on everything
			for _, ot := range s.threads {
				if ot != t {
					t.h = hmix(t.h, ot.h)
				}
			}
			t.h = hmix(t.h, uint64(s.now))
		case opBlock:
			if len(o.hobjs) == 0 {
				s.touch(&s.world, 2)
			}
		}
		for _, ob := range o.hobjs {
			s.touch(ob, uint64(o.kind))
		}
	}
	return t.sub
}

// ---- public API used by shims, fakes and harnesses ----

// Go starts f as a new sim thread.
func Go(name string, f func()) {
	s := cur
	if s == nil {
		go f()
		return
	}
	if s.aborting {
		return
	}
	s.spawn(name, f, s.cur)
}

// Yield is a plain scheduling point.
func Yield(what string) {
	s := cur
	if s == nil {
		return
	}
	s.park(&op{kind: opBlock, obj: what})
}

// Block parks the current thread until pred() holds (evaluated by the scheduler).
func Block(what string, pred func() bool) {
	s := cur
	if s == nil {
		return
	}
	s.park(&op{kind: opBlock, obj: what, ready: func() []int {
		if pred() {
			return one
		}
		return nil
	}})
}

// BlockOn is Block for an operation on known objects (identified by hash cells): operations on
// different objects commute for the purpose of state hashing.
func BlockOn(what string, objs []*uint64, pred func() bool) {
	s := cur
	if s == nil {
		return
	}
	o := &op{kind: opBlock, obj: what, hobjs: objs}
	if pred != nil {
		o.ready = func() []int {
			if pred() {
				return one
			}
			return nil
		}
	}
	s.park(o)
}

// Choose is a local data choice in [0,n); option 0 is the default, others cost CostFault.
func Choose(what string, n int) int {
	s := cur
	if s == nil || n <= 1 || s.aborting {
		return 0
	}
	costs := make([]Cost, n)
	for i := 1; i < n; i++ {
		costs[i] = CostFault
	}
	return s.park(&op{kind: opChoose, n: n, costs: costs, obj: what})
}

// ChooseFree is a local data choice whose options all cost nothing.
func ChooseFree(what string, n int) int {
	s := cur
	if s == nil || n <= 1 || s.aborting {
		return 0
	}
	return s.park(&op{kind: opChoose, n: n, costs: make([]Cost, n), obj: what})
}

// Quiesce blocks until no other thread is enabled and no timer within the auto-fire limit is armed.
func Quiesce() {
	s := cur
	if s == nil {
		return
	}
	s.park(&op{kind: opQuiesce})
}

// RunFor lets virtual time advance by d (timers fire when nothing else can run) and returns at quiescence.
func RunFor(d time.Duration) {
	s := cur
	if s == nil {
		return
	}
	lim := s.now + d
	s.autoLim = lim
	s.park(&op{kind: opQuiesce})
	if s.now < lim {
		s.now = lim
	}
	s.autoLim = s.now
}

// SetAutoTime sets the absolute virtual time up to which timers fire automatically at quiescence.
func SetAutoTime(abs time.Duration) {
	if cur != nil {
		cur.autoLim = abs
	}
}

// Elapsed returns the virtual time since the start of the execution.
func Elapsed() time.Duration {
	if cur == nil {
		return 0
	}
	return cur.now
}

// Fail records a property violation for the current execution.
func Fail(key, format string, args ...any) {
	if cur == nil {
		return
	}
	cur.failures = append(cur.failures, Failure{Key: key, Msg: fmt.Sprintf(format, args...)})
}

// Trace appends to the execution's trace log (used by instrumented entry hooks and harness recorders).
func Trace(name string, args ...any) {
	if cur == nil || cur.aborting {
		return
	}
	sb := name
	for _, a := range args {
		sb += " " + cur.fmtArg(a)
	}
	cur.trace = append(cur.trace, sb)
	for _, h := range traceHooks {
		h(name, args)
	}
}

var traceHooks []func(name string, args []any)

// OnTrace registers a hook called for every Trace event (harness monitors). Reset with ClearTraceHooks.
func OnTrace(h func(name string, args []any)) { traceHooks = append(traceHooks, h) }
func ClearTraceHooks()                        { traceHooks = nil; spawnHooks = nil }

var spawnHooks []func(id int, name string)

// OnSpawn registers a hook called (in the parent's context) whenever a sim thread is spawned by another thread.
func OnSpawn(h func(id int, name string)) { spawnHooks = append(spawnHooks, h) }

// CurrentThread returns id and name of the running sim thread.
func CurrentThread() (int, string) {
	if cur == nil || cur.cur == nil {
		return -1, ""
	}
	return cur.cur.id, cur.cur.name
}

// Threads returns a snapshot of all sim threads of the current execution.
func Threads() []ThreadInfo {
	s := cur
	if s == nil {
		return nil
	}
	var out []ThreadInfo
	for _, t := range s.threads {
		ti := ThreadInfo{ID: t.id, Name: t.name, Done: t.done}
		if t.op != nil {
			ti.OpKind = opNames[t.op.kind]
			ti.OpObj = t.op.obj
		}
		out = append(out, ti)
	}
	return out
}

// Local returns per-execution storage for fakes (created by mk on first use).
func Local(key string, mk func() any) any {
	s := cur
	if s == nil {
		return mk()
	}
	v, ok := s.locals[key]
	if !ok {
		v = mk()
		s.locals[key] = v
	}
	return v
}

// NextID returns a per-execution deterministic object id.
func NextID() int {
	if cur == nil {
		return 0
	}
	cur.objSeq++
	return cur.objSeq
}

// Outcome sets the observable outcome string of the current execution (used to count distinct outcomes).
func Outcome(o string) {
	if cur != nil {
		cur.outcome = o
	}
}

// fmtArg renders trace arguments without addresses: pointers become Type#n (n = order of first appearance).
func (s *Sched) fmtArg(a any) string {
	v := reflect.ValueOf(a)
	if v.IsValid() && v.Kind() == reflect.Ptr {
		if v.IsNil() {
			return "nil"
		}
		if s.ptrIDs == nil {
			s.ptrIDs = map[uintptr]int{}
		}
		id, ok := s.ptrIDs[v.Pointer()]
		if !ok {
			id = len(s.ptrIDs) + 1
			s.ptrIDs[v.Pointer()] = id
		}
		return fmt.Sprintf("%s#%d", v.Type().Elem().Name(), id)
	}
	if b, ok := a.([]byte); ok {
		if len(b) > 60 {
			b = b[:60]
		}
		return fmt.Sprintf("%q", string(b))
	}
	return fmt.Sprint(a)
}

// Mark ends the set-up part of a body (see Config.BranchAfterMark).
func Mark() {
	if cur != nil {
		cur.marked = true
	}
}

// Unmark ends the explored part of a body: with Config.BranchAfterMark no branching happens after it
// (the rest runs under the default schedule only).
func Unmark() {
	if cur != nil {
		cur.marked = false
	}
}
