package simrt

import "fmt"

// Mutex is the model of sync.Mutex. Lock is a scheduling point; Unlock is not.
type Mutex struct {
	h      uint64
	locked bool
	vc     vclock
	id     int
}

func (m *Mutex) name() string {
	if m.id == 0 && cur != nil {
		cur.objSeq++
		m.id = cur.objSeq
	}
	return fmt.Sprintf("mu%d", m.id)
}

func (m *Mutex) Lock() {
	s := cur
	if s == nil {
		m.locked = true
		return
	}
	if s.aborting {
		s.park(nil)
		return
	}
	s.park(&op{kind: opLock, obj: m.name(), hobjs: []*uint64{&m.h}, ready: func() []int {
		if m.locked {
			return nil
		}
		return one
	}})
	m.locked = true
	if s.races != nil {
		s.races.acquire(s.cur, m.vc)
	}
}

func (m *Mutex) TryLock() bool {
	if m.locked {
		return false
	}
	m.locked = true
	if s := cur; s != nil && s.races != nil {
		s.races.acquire(s.cur, m.vc)
	}
	return true
}

func (m *Mutex) Unlock() {
	s := cur
	if s != nil && s.aborting {
		m.locked = false
		return
	}
	if !m.locked {
		panic(runtimeError("sync: unlock of unlocked mutex"))
	}
	if s != nil && s.races != nil {
		m.vc = s.races.release(s.cur)
	}
	if s != nil {
		s.touch(&m.h, 3)
	}
	m.locked = false
}

// RWMutex is the model of sync.RWMutex (no writer preference).
type RWMutex struct {
	h       uint64
	writer  bool
	readers int
	vc      vclock // released by writers
	rvc     vclock // joined release of readers
	id      int
}

func (m *RWMutex) name() string {
	if m.id == 0 && cur != nil {
		cur.objSeq++
		m.id = cur.objSeq
	}
	return fmt.Sprintf("rw%d", m.id)
}

func (m *RWMutex) Lock() {
	s := cur
	if s == nil {
		m.writer = true
		return
	}
	if s.aborting {
		s.park(nil)
		return
	}
	s.park(&op{kind: opLock, obj: m.name(), hobjs: []*uint64{&m.h}, ready: func() []int {
		if m.writer || m.readers > 0 {
			return nil
		}
		return one
	}})
	m.writer = true
	if s.races != nil {
		s.races.acquire(s.cur, m.vc)
		s.races.acquire(s.cur, m.rvc)
	}
}

func (m *RWMutex) TryLock() bool {
	if m.writer || m.readers > 0 {
		return false
	}
	m.writer = true
	return true
}

func (m *RWMutex) Unlock() {
	s := cur
	if s != nil && s.aborting {
		m.writer = false
		return
	}
	if !m.writer {
		panic(runtimeError("sync: Unlock of unlocked RWMutex"))
	}
	if s != nil && s.races != nil {
		m.vc = s.races.release(s.cur)
	}
	if s != nil {
		s.touch(&m.h, 3)
	}
	m.writer = false
}

func (m *RWMutex) RLock() {
	s := cur
	if s == nil {
		m.readers++
		return
	}
	if s.aborting {
		s.park(nil)
		return
	}
	s.park(&op{kind: opRLock, obj: m.name(), hobjs: []*uint64{&m.h}, ready: func() []int {
		if m.writer {
			return nil
		}
		return one
	}})
	m.readers++
	if s.races != nil {
		s.races.acquire(s.cur, m.vc)
	}
}

func (m *RWMutex) TryRLock() bool {
	if m.writer {
		return false
	}
	m.readers++
	return true
}

func (m *RWMutex) RUnlock() {
	s := cur
	if s != nil && s.aborting {
		if m.readers > 0 {
			m.readers--
		}
		return
	}
	if m.readers <= 0 {
		panic(runtimeError("sync: RUnlock of unlocked RWMutex"))
	}
	if s != nil && s.races != nil {
		m.rvc = join(m.rvc, s.races.release(s.cur))
	}
	if s != nil {
		s.touch(&m.h, 3)
	}
	m.readers--
}

// Once is the model of sync.Once: later callers block until the first call has returned.
type Once struct {
	h       uint64
	done    bool
	running bool
	vc      vclock
	id      int
}

func (o *Once) Do(f func()) {
	s := cur
	if s == nil {
		if !o.done {
			o.done = true
			f()
		}
		return
	}
	if s.aborting {
		s.park(nil)
		return
	}
	if o.id == 0 {
		s.objSeq++
		o.id = s.objSeq
	}
	s.park(&op{kind: opOnce, obj: fmt.Sprintf("once%d", o.id), hobjs: []*uint64{&o.h}, ready: func() []int {
		if o.running {
			return nil
		}
		return one
	}})
	if o.done {
		if s.races != nil {
			s.races.acquire(s.cur, o.vc)
		}
		return
	}
	o.running = true
	defer func() {
		o.running = false
		o.done = true
		if !s.aborting {
			s.touch(&o.h, 4)
		}
		if s.races != nil && !s.aborting {
			o.vc = s.races.release(s.cur)
		}
	}()
	f()
}

// WaitGroup is the model of sync.WaitGroup.
type WaitGroup struct {
	h  uint64
	n  int
	vc vclock
}

func (w *WaitGroup) Add(d int) {
	s := cur
	w.n += d
	if s != nil && s.aborting {
		return
	}
	if w.n < 0 {
		panic(runtimeError("sync: negative WaitGroup counter"))
	}
	if s != nil {
		s.touch(&w.h, 5)
	}
	if d < 0 && s != nil && s.races != nil {
		w.vc = join(w.vc, s.races.release(s.cur))
	}
}

func (w *WaitGroup) Wait() {
	s := cur
	if s == nil {
		return
	}
	if s.aborting {
		s.park(nil)
		return
	}
	s.park(&op{kind: opWait, obj: "wg", hobjs: []*uint64{&w.h}, ready: func() []int {
		if w.n > 0 {
			return nil
		}
		return one
	}})
	if s.races != nil {
		s.races.acquire(s.cur, w.vc)
	}
}

// Cond is the model of sync.Cond.
type Cond struct {
	h       uint64
	waiting []*condWaiter
	vc      vclock
}

type condWaiter struct{ woken bool }

func (c *Cond) Wait(l interface {
	Lock()
	Unlock()
}) {
	s := cur
	if s == nil || s.aborting {
		return
	}
	w := &condWaiter{}
	c.waiting = append(c.waiting, w)
	l.Unlock()
	s.park(&op{kind: opBlock, obj: "cond", hobjs: []*uint64{&c.h}, ready: func() []int {
		if w.woken {
			return one
		}
		return nil
	}})
	if s.races != nil {
		s.races.acquire(s.cur, c.vc)
	}
	l.Lock()
}

func (c *Cond) Signal() {
	if s := cur; s != nil && !s.aborting {
		s.touch(&c.h, 6)
	}
	if s := cur; s != nil && s.races != nil && !s.aborting {
		c.vc = join(c.vc, s.races.release(s.cur))
	}
	for i, w := range c.waiting {
		if !w.woken {
			w.woken = true
			c.waiting = c.waiting[i+1:]
			return
		}
	}
}

func (c *Cond) Broadcast() {
	if s := cur; s != nil && !s.aborting {
		s.touch(&c.h, 6)
	}
	if s := cur; s != nil && s.races != nil && !s.aborting {
		c.vc = join(c.vc, s.races.release(s.cur))
	}
	for _, w := range c.waiting {
		w.woken = true
	}
	c.waiting = nil
}
