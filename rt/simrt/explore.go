package simrt

import (
	"fmt"
	"sort"
	"time"
)

// Bounds limits the deviations of an execution from the default schedule.
type Bounds struct {
	Preempt int
	Timer   int
	Fault   int
	Total   int // < 0 = no separate total bound
}

// B builds bounds without a separate total bound.
func B(preempt, timer, fault int) Bounds { return Bounds{Preempt: preempt, Timer: timer, Fault: fault, Total: -1} }

// Cap is the largest number of deviations the bounds admit.
func (b Bounds) Cap() int {
	c := b.Preempt + b.Timer + b.Fault
	if b.Total >= 0 && b.Total < c {
		c = b.Total
	}
	return c
}

func (b Bounds) String() string {
	return fmt.Sprintf("preempt<=%d,timer<=%d,fault<=%d,total<=%d", b.Preempt, b.Timer, b.Fault, b.Total)
}

type used struct{ p, t, f int }

func (u used) add(c Cost) used {
	if c&CostPreempt != 0 {
		u.p++
	}
	if c&CostTimer != 0 {
		u.t++
	}
	if c&CostFault != 0 {
		u.f++
	}
	return u
}

func (b Bounds) admits(u used) bool {
	if u.p > b.Preempt || u.t > b.Timer || u.f > b.Fault {
		return false
	}
	if b.Total >= 0 && u.p+u.t+u.f > b.Total {
		return false
	}
	return true
}

// Found is one violation with the schedule that produced it.
type Found struct {
	Key     string
	Msg     string
	Choices []int
	Count   int
}

// Explorer performs a stateless depth-first enumeration of all executions of Body whose
// deviation costs stay within Bounds.
type Explorer struct {
	Cfg      Config
	Body     func()
	Bounds   Bounds
	MaxExecs int
	Deadline time.Time
	// Classify maps an execution to extra failures (besides Fail() calls and panics); optional.
	Classify func(x *Exec) []Failure

	NoPrune bool // disable happens-before state caching
	visited map[uint64]used
	Pruned  int

	Execs      int
	Points     int
	MaxPoints  int
	Capped     bool
	Outcomes   map[string]int
	Found      map[string]*Found
	Diverged   int
	FirstDiv   string
	MaxThreads int
}

func (e *Explorer) init() {
	if e.Outcomes == nil {
		e.Outcomes = map[string]int{}
		e.Found = map[string]*Found{}
	}
}

func choicesOf(x *Exec) []int {
	c := make([]int, len(x.Points))
	for i, p := range x.Points {
		c[i] = p.Chosen
	}
	return c
}

// RunOne executes one schedule and records its results.
func (e *Explorer) RunOne(prefix []int) *Exec {
	e.init()
	x := Run(e.Cfg, prefix, e.Body)
	e.Execs++
	e.Points += len(x.Points)
	if len(x.Points) > e.MaxPoints {
		e.MaxPoints = len(x.Points)
	}
	if len(x.Threads) > e.MaxThreads {
		e.MaxThreads = len(x.Threads)
	}
	if x.Diverged != "" {
		e.Diverged++
		if e.FirstDiv == "" {
			e.FirstDiv = x.Diverged
		}
		return x
	}
	fails := x.Failures
	if x.Panic != nil {
		fails = append(fails, Failure{Key: "panic|" + PanicKey(x.Panic), Msg: "panic in " + x.Panic.Thread + ": " + x.Panic.Value + "\n" + x.Panic.Stack})
	}
	if x.Truncated {
		fails = append(fails, Failure{Key: "engine|steplimit", Msg: "execution exceeded the step limit (livelock?)"})
	}
	if e.Classify != nil {
		fails = append(fails, e.Classify(x)...)
	}
	out := x.Outcome
	if len(fails) > 0 {
		out += " !" + fails[0].Key
	}
	e.Outcomes[out]++
	for _, f := range fails {
		if fd, ok := e.Found[f.Key]; ok {
			fd.Count++
			// keep the schedule with the fewest non-default choices
			if nonDefault(choicesOf(x)) < nonDefault(fd.Choices) {
				fd.Choices, fd.Msg = choicesOf(x), f.Msg
			}
		} else {
			e.Found[f.Key] = &Found{Key: f.Key, Msg: f.Msg, Choices: choicesOf(x), Count: 1}
		}
	}
	return x
}

func nonDefault(c []int) int {
	n := 0
	for _, v := range c {
		if v != 0 {
			n++
		}
	}
	return n
}

func PanicKey(p *PanicInfo) string {
	v := p.Value
	if len(v) > 80 {
		v = v[:80]
	}
	return v
}

func (e *Explorer) stop() bool {
	if e.MaxExecs > 0 && e.Execs >= e.MaxExecs {
		e.Capped = true
		return true
	}
	if !e.Deadline.IsZero() && time.Now().After(e.Deadline) {
		e.Capped = true
		return true
	}
	return false
}

// Explore enumerates the subtree below prefix (prefix itself included).
func (e *Explorer) Explore(prefix []int) {
	e.init()
	if e.stop() {
		return
	}
	x := e.RunOne(prefix)
	if x.Diverged != "" {
		return
	}
	e.children(x, len(prefix), func(p []int) { e.Explore(p) })
}

// children calls f for every admissible one-step deviation of x after position from.
func (e *Explorer) children(x *Exec, from int, f func(prefix []int)) {
	var u used
	if e.visited == nil {
		e.visited = map[uint64]used{}
	}
	for i, p := range x.Points {
		if i >= from {
			if !e.NoPrune && i < len(x.Keys) {
				k := x.Keys[i]
				if v, ok := e.visited[k]; ok && v.p <= u.p && v.t <= u.t && v.f <= u.f {
					// an equivalent state was already expanded with at least this much budget left:
					// everything reachable from here is covered by that expansion
					e.Pruned++
					return
				} else if !ok || (u.p <= v.p && u.t <= v.t && u.f <= v.f) {
					e.visited[k] = u
				}
			}
			for alt := 0; alt < p.N; alt++ {
				if alt == p.Chosen {
					continue
				}
				if p.Focus != nil && !p.Focus[alt] {
					continue
				}
				if !e.Bounds.admits(u.add(p.Costs[alt])) {
					continue
				}
				np := make([]int, i+1)
				for j := 0; j < i; j++ {
					np[j] = x.Points[j].Chosen
				}
				np[i] = alt
				f(np)
				if e.Capped {
					return
				}
			}
		}
		u = u.add(p.Costs[p.Chosen])
	}
}

// Tasks runs the root execution and returns the prefixes of its direct children (for sharding).
func (e *Explorer) Tasks() [][]int {
	e.init()
	x := e.RunOne(nil)
	var out [][]int
	if x.Diverged != "" {
		return nil
	}
	e.children(x, 0, func(p []int) { out = append(out, p) })
	return out
}

// SortedFound returns the violations ordered by key.
func (e *Explorer) SortedFound() []*Found {
	var out []*Found
	for _, f := range e.Found {
		out = append(out, f)
	}
	sort.Slice(out, func(i, j int) bool { return out[i].Key < out[j].Key })
	return out
}

// Merge adds the results of another explorer (a shard).
func (e *Explorer) Merge(o *Explorer) {
	e.init()
	e.Execs += o.Execs
	e.Points += o.Points
	if o.MaxPoints > e.MaxPoints {
		e.MaxPoints = o.MaxPoints
	}
	if o.MaxThreads > e.MaxThreads {
		e.MaxThreads = o.MaxThreads
	}
	e.Capped = e.Capped || o.Capped
	e.Diverged += o.Diverged
	if e.FirstDiv == "" {
		e.FirstDiv = o.FirstDiv
	}
	for k, v := range o.Outcomes {
		e.Outcomes[k] += v
	}
	for k, f := range o.Found {
		if fd, ok := e.Found[k]; ok {
			fd.Count += f.Count
			if nonDefault(f.Choices) < nonDefault(fd.Choices) {
				fd.Choices, fd.Msg = f.Choices, f.Msg
			}
		} else {
			e.Found[k] = f
		}
	}
}
