package simrt

import "sort"

// Happens-before state hashing: every thread and every synchronisation object carries a hash of
// its causal history. Two execution prefixes with the same multiset of thread hashes are
// equivalent up to commuting independent steps (given data-race freedom), which allows the
// explorer to prune prefixes that reach an already expanded state.

const hbPrime = 1099511628211

func hmix(h uint64, vs ...uint64) uint64 {
	if h == 0 {
		h = 14695981039346656037
	}
	for _, v := range vs {
		// hash_combine style: must not cancel when h == v (a thread and the object it just touched carry the same hash)
		h ^= v + 0x9e3779b97f4a7c15 + (h << 6) + (h >> 2)
		h *= hbPrime
		h ^= h >> 29
	}
	return h
}

func hstr(s string) uint64 {
	h := uint64(14695981039346656037)
	for i := 0; i < len(s); i++ {
		h ^= uint64(s[i])
		h *= hbPrime
	}
	return h
}

// touch folds the object's history into the running thread and vice versa.
func (s *Sched) touch(obj *uint64, tag uint64) {
	t := s.cur
	if t == nil || obj == nil {
		return
	}
	h := hmix(t.h, *obj, tag)
	t.h = h
	*obj = h
}

// Touch records that the current step accessed the named harness-level object (a fake's log,
// a recorder): its access order becomes part of the state.
func Touch(name string) {
	s := cur
	if s == nil || s.aborting {
		return
	}
	if s.touchObjs == nil {
		s.touchObjs = map[string]*uint64{}
	}
	p := s.touchObjs[name]
	if p == nil {
		p = new(uint64)
		*p = hstr(name)
		s.touchObjs[name] = p
	}
	s.touch(p, 1)
}

// TouchVal folds a value into the current thread's history (e.g. an environment answer).
func TouchVal(v uint64) {
	s := cur
	if s == nil || s.cur == nil {
		return
	}
	s.cur.h = hmix(s.cur.h, v)
}

// stateKey hashes the global state at a choice point.
func (s *Sched) stateKey() uint64 {
	hs := make([]uint64, 0, len(s.threads))
	for _, t := range s.threads {
		if t.done {
			hs = append(hs, hmix(t.h, 0xdead))
		} else {
			hs = append(hs, t.h)
		}
	}
	sort.Slice(hs, func(i, j int) bool { return hs[i] < hs[j] })
	k := hmix(0, uint64(s.now), uint64(s.autoLim))
	if s.cur != nil {
		k = hmix(k, s.cur.h)
		if s.cur.done {
			k = hmix(k, 1)
		}
	}
	for _, tm := range s.timers {
		if tm.armed {
			k = hmix(k, tm.h, uint64(tm.deadline))
		}
	}
	return hmix(k, hs...)
}

// HashString exposes the string hash used for state keys.
func HashString(s string) uint64 { return hstr(s) }

// TouchCell is Touch for a caller-owned hash cell (fakes).
func TouchCell(c *uint64) {
	s := cur
	if s == nil || s.aborting || s.firing != nil {
		return
	}
	s.touch(c, 1)
}
