package simrt

import (
	"cmp"
	"sort"
)

// SortedKeys returns the keys of m in ascending order (deterministic map iteration).
func SortedKeys[K cmp.Ordered, V any](m map[K]V) []K {
	ks := make([]K, 0, len(m))
	for k := range m {
		ks = append(ks, k)
	}
	sort.Slice(ks, func(i, j int) bool { return ks[i] < ks[j] })
	return ks
}
