package simrt

import (
	"fmt"
	"unsafe"
)

// Chan is simrt's model of one Go channel. The real channel value is used only
// as identity (and for its capacity); all data flows through this model.
type Chan struct {
	h      uint64
	id     int
	cap    int
	buf    []any
	bufVC  []vclock
	closed bool
	recvq  []*waiter
	sendq  []*waiter
	keep   any
	vc     vclock // close / last-op clock
	label  string
	timer  *Timer // set for channels created by time.After
}

type waiter struct {
	t    *Thread
	c    *selCase
	idx  int
	done bool
}

type selCase struct {
	ch    *Chan
	owned bool // the channel expression is an inline time.After(...): its timer dies with the select
	send bool
	val  any
	rv   any
	rok  bool
}

type runtimeError string

func (e runtimeError) Error() string { return string(e) }
func (e runtimeError) RuntimeError() {}

func chanPtr[T any](ch chan T) uintptr       { return *(*uintptr)(unsafe.Pointer(&ch)) }
func rchanPtr[T any](ch <-chan T) uintptr    { return *(*uintptr)(unsafe.Pointer(&ch)) }
func schanPtr[T any](ch chan<- T) uintptr    { return *(*uintptr)(unsafe.Pointer(&ch)) }

func (s *Sched) chanFor(p uintptr, capacity int, keep any) *Chan {
	if p == 0 {
		return nil
	}
	c, ok := s.chans[p]
	if !ok {
		s.chanSeq++
		c = &Chan{id: s.chanSeq, cap: capacity, keep: keep}
		s.chans[p] = c
	}
	return c
}

func (c *Chan) firstWaiter(q []*waiter, self *Thread) *waiter {
	for _, w := range q {
		if !w.done && w.t != self {
			return w
		}
	}
	return nil
}

func (c *selCase) ready(self *Thread) bool {
	ch := c.ch
	if ch == nil {
		return false
	}
	if c.send {
		return ch.closed || len(ch.buf) < ch.cap || (len(ch.buf) == 0 && ch.firstWaiter(ch.recvq, self) != nil)
	}
	return len(ch.buf) > 0 || ch.closed || ch.firstWaiter(ch.sendq, self) != nil
}

func removeWaiter(q []*waiter, w *waiter) []*waiter {
	for i, x := range q {
		if x == w {
			return append(q[:i:i], q[i+1:]...)
		}
	}
	return q
}

func (s *Sched) deregister(t *Thread) {
	for _, w := range t.waiters {
		if w.c.send {
			w.c.ch.sendq = removeWaiter(w.c.ch.sendq, w)
		} else {
			w.c.ch.recvq = removeWaiter(w.c.ch.recvq, w)
		}
	}
	t.waiters = nil
}

// selectOp is the single implementation of send, receive and select.
func (s *Sched) selectOp(cases []*selCase, hasDefault bool, what string) int {
	if s.aborting {
		t := s.cur
		if t != nil && !t.exiting {
			s.park(nil) // exits
		}
		return -1
	}
	t := s.cur
	// a blocking operation registers as a waiting partner; a non-blocking one never does
	if !hasDefault {
		for i, c := range cases {
			if c.ch == nil {
				continue
			}
			w := &waiter{t: t, c: c, idx: i}
			s.touch(&c.ch.h, 7) // arrival order at a channel is part of the state (FIFO partner choice)
			t.waiters = append(t.waiters, w)
			if c.send {
				c.ch.sendq = append(c.ch.sendq, w)
			} else {
				c.ch.recvq = append(c.ch.recvq, w)
			}
		}
	}
	o := &op{kind: opSelect, obj: what}
	o.ready = func() []int {
		var r []int
		for i, c := range cases {
			if c.ready(t) {
				r = append(r, i)
			}
		}
		if len(r) == 0 && hasDefault {
			return []int{-1}
		}
		return r
	}
	k := s.park(o)
	if k < 0 {
		for _, c := range cases {
			if c.ch != nil {
				s.touch(&c.ch.h, 8)
			}
		}
	} else if cases[k].ch != nil {
		s.touch(&cases[k].ch.h, 9)
	}
	wasCompleted := false
	for _, w := range t.waiters {
		if w.done {
			wasCompleted = true
		}
	}
	s.deregister(t)
	for i, c := range cases {
		if i != k && c.owned && c.ch != nil && c.ch.timer != nil {
			c.ch.timer.Stop()
		}
	}
	if k < 0 {
		return -1
	}
	c := cases[k]
	if wasCompleted {
		// a partner already performed the transfer for case k
		if s.races != nil && !c.send {
			// receive side acquired in completeRecv
		}
		return k
	}
	ch := c.ch
	if c.send {
		if ch.closed {
			panic(runtimeError("send on closed channel"))
		}
		if w := ch.firstWaiter(ch.recvq, t); w != nil && len(ch.buf) == 0 {
			// a receiver can only be handed a value directly while the buffer is empty (FIFO)
			w.c.rv, w.c.rok = c.val, true
			s.complete(w)
			s.hbPair(t, w.t)
			if s.races != nil {
				s.races.handoff(t, w.t)
			}
		} else {
			ch.buf = append(ch.buf, c.val)
			if s.races != nil {
				ch.bufVC = append(ch.bufVC, s.races.release(t))
			}
		}
		return k
	}
	// receive
	if len(ch.buf) > 0 {
		c.rv, c.rok = ch.buf[0], true
		ch.buf = ch.buf[1:]
		if s.races != nil && len(ch.bufVC) > 0 {
			s.races.acquire(t, ch.bufVC[0])
			ch.bufVC = ch.bufVC[1:]
		}
		return k
	}
	if w := ch.firstWaiter(ch.sendq, t); w != nil {
		c.rv, c.rok = w.c.val, true
		s.complete(w)
		s.hbPair(t, w.t)
		if s.races != nil {
			s.races.handoff(w.t, t)
		}
		return k
	}
	// closed
	c.rv, c.rok = nil, false
	if s.races != nil {
		s.races.acquire(t, ch.vc)
	}
	return k
}

// complete marks a parked partner's channel operation as done; it resumes with that case.
func (s *Sched) complete(w *waiter) {
	w.done = true
	pt := w.t
	// withdraw the partner's other registrations right away
	for _, ow := range pt.waiters {
		if ow != w {
			if ow.c.send {
				ow.c.ch.sendq = removeWaiter(ow.c.ch.sendq, ow)
			} else {
				ow.c.ch.recvq = removeWaiter(ow.c.ch.recvq, ow)
			}
		}
	}
	if w.c.send {
		w.c.ch.sendq = removeWaiter(w.c.ch.sendq, w)
	} else {
		w.c.ch.recvq = removeWaiter(w.c.ch.recvq, w)
	}
	pt.waiters = []*waiter{w}
	pt.op = &op{kind: opResume, fixed: w.idx, obj: pt.op.obj}
}

// hbPair makes a rendezvous a joint step of both threads.
func (s *Sched) hbPair(a, b *Thread) {
	h := hmix(a.h, b.h, 10)
	a.h = h
	b.h = hmix(h, 11)
}

func (s *Sched) closeChan(ch *Chan) {
	if s.aborting {
		return
	}
	var hobjs []*uint64
	if ch != nil {
		hobjs = []*uint64{&ch.h}
	}
	s.park(&op{kind: opClose, obj: fmt.Sprintf("ch%d", chID(ch)), hobjs: hobjs})
	if ch == nil {
		panic(runtimeError("close of nil channel"))
	}
	if ch.closed {
		panic(runtimeError("close of closed channel"))
	}
	ch.closed = true
	if s.races != nil {
		ch.vc = s.races.release(s.cur)
	}
}

func chID(c *Chan) int {
	if c == nil {
		return 0
	}
	return c.id
}

// ---- generic front end used by instrumented code ----

func Send[T any](ch chan<- T, v T) {
	s := cur
	if s == nil {
		ch <- v
		return
	}
	c := s.chanFor(schanPtr(ch), cap(ch), ch)
	s.selectOp([]*selCase{{ch: c, send: true, val: v}}, false, fmt.Sprintf("send ch%d", chID(c)))
}

func Recv[T any](ch <-chan T) T {
	v, _ := Recv2(ch)
	return v
}

func Recv2[T any](ch <-chan T) (T, bool) {
	s := cur
	if s == nil {
		v, ok := <-ch
		return v, ok
	}
	c := s.chanFor(rchanPtr(ch), cap(ch), ch)
	sc := &selCase{ch: c}
	s.selectOp([]*selCase{sc}, false, fmt.Sprintf("recv ch%d", chID(c)))
	var z T
	if sc.rv == nil {
		return z, sc.rok
	}
	return sc.rv.(T), sc.rok
}

func Close[T any](ch chan<- T) {
	s := cur
	if s == nil {
		close(ch)
		return
	}
	s.closeChan(s.chanFor(schanPtr(ch), cap(ch), ch))
}

// Len returns the number of buffered elements of the modelled channel.
func Len[T any](ch chan T) int {
	s := cur
	if s == nil {
		return len(ch)
	}
	c := s.chanFor(chanPtr(ch), cap(ch), ch)
	if c == nil {
		return 0
	}
	return len(c.buf)
}

// SelCase is one case of a rewritten select statement.
type SelCase interface{ sc() *selCase }

type RCase[T any] struct{ c selCase }

func (r *RCase[T]) sc() *selCase { return &r.c }
func (r *RCase[T]) Val() T {
	var z T
	if r.c.rv == nil {
		return z
	}
	return r.c.rv.(T)
}
func (r *RCase[T]) Val2() (T, bool) { return r.Val(), r.c.rok }

type SCase struct{ c selCase }

func (r *SCase) sc() *selCase { return &r.c }

func RecvCase[T any](ch <-chan T) *RCase[T] {
	r := &RCase[T]{}
	if cur != nil {
		r.c.ch = cur.chanFor(rchanPtr(ch), cap(ch), ch)
	}
	return r
}

// RecvCaseOwned is RecvCase for a case whose channel expression is an inline time.After call:
// nothing else can ever receive from that channel, so the timer is disarmed when another case wins.
func RecvCaseOwned[T any](ch <-chan T) *RCase[T] {
	r := RecvCase(ch)
	r.c.owned = true
	return r
}

func SendCase[T any](ch chan<- T, v T) *SCase {
	r := &SCase{}
	r.c.send = true
	r.c.val = v
	if cur != nil {
		r.c.ch = cur.chanFor(schanPtr(ch), cap(ch), ch)
	}
	return r
}

// Select performs a rewritten select statement; returns the chosen case index or -1 for default.
func Select(hasDefault bool, cases ...SelCase) int {
	s := cur
	if s == nil {
		panic("simrt.Select outside simulation")
	}
	cs := make([]*selCase, len(cases))
	desc := "select"
	for i, c := range cases {
		cs[i] = c.sc()
		if cs[i].send {
			desc += fmt.Sprintf(" s:ch%d", chID(cs[i].ch))
		} else {
			desc += fmt.Sprintf(" r:ch%d", chID(cs[i].ch))
		}
	}
	if hasDefault {
		desc += " default"
	}
	return s.selectOp(cs, hasDefault, desc)
}

// PushChan delivers v into the modelled channel from the environment (timers, fakes running in
// scheduler context); returns false if the buffer is full.
func pushChan(s *Sched, c *Chan, v any, vc vclock) bool {
	if c == nil || c.closed {
		return false
	}
	// direct hand-off to a waiting receiver keeps Go's semantics for unbuffered channels
	if len(c.buf) >= c.cap {
		return false
	}
	c.buf = append(c.buf, v)
	if s.firing != nil {
		c.h = hmix(c.h, s.firing.h, uint64(s.now))
	}
	if s.races != nil {
		c.bufVC = append(c.bufVC, vc)
	}
	return true
}
