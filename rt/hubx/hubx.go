// Package hubx: complete ship-go nodes (Hub + ship + ws + MdnsManager + ZeroconfProvider) over the
// fake network and the fake zeroconf ether, with a recording application on top.
package hubx

import (
	"crypto/tls"
	"fmt"
	"strings"
	"time"

	"github.com/enbility/ship-go/api"
	"github.com/enbility/ship-go/hub"
	"github.com/enbility/ship-go/mdns"
	"github.com/enbility/ship-go/zzverif/simrt"
)

// Ev is one application-level observation.
type Ev struct {
	T    time.Duration
	Seq  int
	Tid  int    // sim thread that made the call
	TName string
	MaxTid int  // number of threads that existed at the time of the call
	Kind string // connected, disconnected, setup, visible, shipid, pairing, payload
	SKI  string
	Arg  string
}

func (e Ev) String() string { return fmt.Sprintf("%s(%s,%s)", e.Kind, short(e.SKI), e.Arg) }

func short(ski string) string {
	if len(ski) > 6 {
		return ski[:6]
	}
	return ski
}

// App is the recording application (api.HubReaderInterface).
type App struct {
	Name         string
	Log          []Ev
	seq          int
	AllowWaiting bool
	Writers      map[string]api.ShipConnectionDataWriterInterface
	SetupSeq     map[string]int
	Visible      [][]api.RemoteService
}

var _ api.HubReaderInterface = (*App)(nil)

func (a *App) add(kind, ski, arg string) {
	simrt.Touch("app:" + a.Name)
	simrt.TouchVal(simrt.HashString(kind + ski + arg))
	a.seq++
	tid, tn := simrt.CurrentThread()
	a.Log = append(a.Log, Ev{T: simrt.Elapsed(), Seq: a.seq, Kind: kind, SKI: ski, Arg: arg, Tid: tid, TName: tn, MaxTid: len(simrt.Threads())})
}

func (a *App) RemoteSKIConnected(ski string)    { a.add("connected", ski, "") }
func (a *App) RemoteSKIDisconnected(ski string) { a.add("disconnected", ski, "") }
func (a *App) SetupRemoteDevice(ski string, w api.ShipConnectionDataWriterInterface) api.ShipConnectionDataReaderInterface {
	if a.Writers == nil {
		a.Writers = map[string]api.ShipConnectionDataWriterInterface{}
		a.SetupSeq = map[string]int{}
	}
	a.Writers[ski] = w
	a.SetupSeq[ski]++
	n := a.SetupSeq[ski]
	a.add("setup", ski, fmt.Sprint(n))
	return &reader{a: a, ski: ski, gen: n}
}
func (a *App) VisibleRemoteServicesUpdated(entries []api.RemoteService) {
	a.Visible = append(a.Visible, entries)
	var skis []string
	for _, e := range entries {
		skis = append(skis, short(e.Ski))
	}
	a.add("visible", "", strings.Join(skis, "+"))
}
func (a *App) ServiceShipIDUpdate(ski string, id string) { a.add("shipid", ski, id) }
func (a *App) ServicePairingDetailUpdate(ski string, d *api.ConnectionStateDetail) {
	a.add("pairing", ski, fmt.Sprint(uint(d.State())))
}
func (a *App) AllowWaitingForTrust(ski string) bool { return a.AllowWaiting }

type reader struct {
	a   *App
	ski string
	gen int
}

func (r *reader) HandleShipPayloadMessage(m []byte) { r.a.add("payload", r.ski, fmt.Sprintf("%d:%s", r.gen, string(m))) }

// Count returns the number of log entries of a kind for a SKI ("" = any).
func (a *App) Count(kind, ski string) int {
	n := 0
	for _, e := range a.Log {
		if e.Kind == kind && (ski == "" || e.SKI == ski) {
			n++
		}
	}
	return n
}

// Last returns the last log entry of one of the kinds for the SKI.
func (a *App) Last(ski string, kinds ...string) *Ev {
	for i := len(a.Log) - 1; i >= 0; i-- {
		e := a.Log[i]
		if e.SKI != ski {
			continue
		}
		for _, k := range kinds {
			if e.Kind == k {
				return &a.Log[i]
			}
		}
	}
	return nil
}

// Node is one complete ship-go service.
type Node struct {
	Name    string
	SKI     string
	Port    int
	Cert    tls.Certificate
	App     *App
	Hub     *hub.Hub
	Mdns    *mdns.MdnsManager
	Local   *api.ServiceDetails
	Started bool
}

// CertSKI returns the SKI of fixed test certificate i.
func CertSKI(i int) string { return testCerts[i].SKI }

// NewNode builds (but does not start) a node using fixed test certificate certIdx.
func NewNode(name string, certIdx, port int) *Node {
	tc := testCerts[certIdx]
	c, err := tls.X509KeyPair([]byte(tc.Cert), []byte(tc.Key))
	if err != nil {
		panic(err)
	}
	n := &Node{Name: name, SKI: tc.SKI, Port: port, Cert: c, App: &App{Name: name, AllowWaiting: true}}
	n.Local = api.NewServiceDetails(tc.SKI)
	n.Local.SetShipID("shipid-" + name)
	n.Local.SetDeviceType("EnergyManagementSystem")
	n.Mdns = mdns.NewMDNS(tc.SKI, "brand", "model", "type", "serial-"+name, []api.DeviceCategoryType{api.DeviceCategoryTypeEnergyManagementSystem},
		"shipid-"+name, "svc-"+name, port, nil, mdns.MdnsProviderSelectionGoZeroConfOnly)
	n.Hub = hub.NewHub(n.App, n.Mdns, port, c, n.Local)
	return n
}

func (n *Node) Start() {
	n.Started = true
	n.Hub.Start()
}
