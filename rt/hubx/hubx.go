// Package hubx: complete ship-go nodes (Hub + ship + ws + MdnsManager + ZeroconfProvider) over the
// fake network and the fake zeroconf ether, with a recording application on top.
package hubx

import (
	"net"
	"crypto/tls"
	"fmt"
	"strings"
	"time"

	"github.com/enbility/ship-go/api"
	"github.com/enbility/ship-go/hub"
	"github.com/enbility/ship-go/mdns"
	"github.com/enbility/ship-go/zzverif/simrt"
)

// Ev is one application-level observation.
type Ev struct {
	T    time.Duration
	Seq  int
	Tid  int    // sim thread that made the call
	TName string
	MaxTid int  // number of threads that existed at the time of the call
	Kind string // connected, disconnected, setup, visible, shipid, pairing, payload
	SKI  string
	Arg  string
}

func (e Ev) String() string { return fmt.Sprintf("%s(%s,%s)", e.Kind, short(e.SKI), e.Arg) }

func short(ski string) string {
	if len(ski) > 6 {
		return ski[:6]
	}
	return ski
}

// App is the recording application (api.HubReaderInterface).
type App struct {
	Name         string
	Log          []Ev
	seq          int
	AllowWaiting bool
	Writers      map[string]api.ShipConnectionDataWriterInterface
	SetupSeq     map[string]int
	Visible      [][]api.RemoteService
}

var _ api.HubReaderInterface = (*App)(nil)

func (a *App) add(kind, ski, arg string) {
	simrt.Touch("app:" + a.Name)
	simrt.TouchVal(simrt.HashString(kind + ski + arg))
	a.seq++
	tid, tn := simrt.CurrentThread()
	a.Log = append(a.Log, Ev{T: simrt.Elapsed(), Seq: a.seq, Kind: kind, SKI: ski, Arg: arg, Tid: tid, TName: tn, MaxTid: len(simrt.Threads())})
}

func (a *App) RemoteSKIConnected(ski string)    { a.add("connected", ski, "") }
func (a *App) RemoteSKIDisconnected(ski string) { a.add("disconnected", ski, "") }
func (a *App) SetupRemoteDevice(ski string, w api.ShipConnectionDataWriterInterface) api.ShipConnectionDataReaderInterface {
	if a.Writers == nil {
		a.Writers = map[string]api.ShipConnectionDataWriterInterface{}
		a.SetupSeq = map[string]int{}
	}
	a.Writers[ski] = w
	a.SetupSeq[ski]++
	n := a.SetupSeq[ski]
	a.add("setup", ski, fmt.Sprint(n))
	return &reader{a: a, ski: ski, gen: n}
}
func (a *App) VisibleRemoteServicesUpdated(entries []api.RemoteService) {
	a.Visible = append(a.Visible, entries)
	var skis []string
	for _, e := range entries {
		skis = append(skis, short(e.Ski))
	}
	a.add("visible", "", strings.Join(skis, "+"))
}
func (a *App) ServiceShipIDUpdate(ski string, id string) { a.add("shipid", ski, id) }
func (a *App) ServicePairingDetailUpdate(ski string, d *api.ConnectionStateDetail) {
	a.add("pairing", ski, fmt.Sprint(uint(d.State())))
}
func (a *App) AllowWaitingForTrust(ski string) bool { return a.AllowWaiting }

type reader struct {
	a   *App
	ski string
	gen int
}

func (r *reader) HandleShipPayloadMessage(m []byte) { r.a.add("payload", r.ski, fmt.Sprintf("%d:%s", r.gen, string(m))) }

// Count returns the number of log entries of a kind for a SKI ("" = any).
func (a *App) Count(kind, ski string) int {
	n := 0
	for _, e := range a.Log {
		if e.Kind == kind && (ski == "" || e.SKI == ski) {
			n++
		}
	}
	return n
}

// Last returns the last log entry of one of the kinds for the SKI.
func (a *App) Last(ski string, kinds ...string) *Ev {
	for i := len(a.Log) - 1; i >= 0; i-- {
		e := a.Log[i]
		if e.SKI != ski {
			continue
		}
		for _, k := range kinds {
			if e.Kind == k {
				return &a.Log[i]
			}
		}
	}
	return nil
}

// Node is one complete ship-go service.
type Node struct {
	Name    string
	SKI     string
	Port    int
	Cert    tls.Certificate
	App     *App
	Hub     *hub.Hub
	Mdns    *mdns.MdnsManager // nil for a node built with NewNodeSimpleMdns
	Simple  *SimpleMdns
	Local   *api.ServiceDetails
	Started bool
}

// CertSKI returns the SKI of fixed test certificate i.
func CertSKI(i int) string { return testCerts[i].SKI }

// NewNode builds (but does not start) a node using fixed test certificate certIdx.
func NewNode(name string, certIdx, port int) *Node {
	tc := testCerts[certIdx]
	c, err := tls.X509KeyPair([]byte(tc.Cert), []byte(tc.Key))
	if err != nil {
		panic(err)
	}
	n := &Node{Name: name, SKI: tc.SKI, Port: port, Cert: c, App: &App{Name: name, AllowWaiting: true}}
	n.Local = api.NewServiceDetails(tc.SKI)
	n.Local.SetShipID("shipid-" + name)
	n.Local.SetDeviceType("EnergyManagementSystem")
	n.Mdns = mdns.NewMDNS(tc.SKI, "brand", "model", "type", "serial-"+name, []api.DeviceCategoryType{api.DeviceCategoryTypeEnergyManagementSystem},
		"shipid-"+name, "svc-"+name, port, nil, mdns.MdnsProviderSelectionGoZeroConfOnly)
	n.Hub = hub.NewHub(n.App, n.Mdns, port, c, n.Local)
	return n
}

func (n *Node) Start() {
	n.Started = true
	n.Hub.Start()
}

// ---- SimpleMdns: a second, legitimate implementation of api.MdnsInterface ----
//
// The hub only knows the interface (its own unit tests use mocks of it). SimpleMdns is an in-memory
// implementation that answers RequestMdnsEntries synchronously (the callback runs before the call returns) and
// reports appearing / disappearing services on a goroutine of its own; announcing an already announced service
// is a no-op. The hub must work with it just as with the MdnsManager.
type SimpleMdns struct {
	ski, id, name string
	port          int
	cb            api.MdnsReportInterface
	announced     bool
	register      bool
	started       bool
}

type simpleEther struct {
	nodes   []*SimpleMdns
	entries map[string]*api.MdnsEntry
}

func ether() *simpleEther {
	return simrt.Local("hubx.simplemdns", func() any { return &simpleEther{entries: map[string]*api.MdnsEntry{}} }).(*simpleEther)
}

func (m *SimpleMdns) view() map[string]*api.MdnsEntry {
	out := map[string]*api.MdnsEntry{}
	for k, e := range ether().entries {
		if k == m.ski {
			continue
		}
		c := *e
		c.Addresses = append([]net.IP(nil), e.Addresses...)
		out[k] = &c
	}
	return out
}

func (m *SimpleMdns) notifyOthers() {
	for _, o := range ether().nodes {
		if o != m && o.started && o.cb != nil {
			o := o
			simrt.Go("simplemdns.notify", func() { o.cb.ReportMdnsEntries(o.view(), true) })
		}
	}
}

// Start announces the service (like MdnsManager.Start) and delivers what is visible already.
func (m *SimpleMdns) Start(cb api.MdnsReportInterface) error {
	m.cb = cb
	m.started = true
	e := ether()
	e.nodes = append(e.nodes, m)
	m.announced = false
	_ = m.AnnounceMdnsEntry()
	simrt.Go("simplemdns.notify", func() { cb.ReportMdnsEntries(m.view(), true) })
	return nil
}

func (m *SimpleMdns) Shutdown() {
	m.UnannounceMdnsEntry()
	m.started = false
}

func (m *SimpleMdns) AnnounceMdnsEntry() error {
	simrt.Yield("simplemdns.Announce")
	if m.announced || !m.started {
		return nil
	}
	m.announced = true
	ether().entries[m.ski] = &api.MdnsEntry{Name: m.name, Ski: m.ski, Identifier: m.id, Path: "/ship/", Register: m.register,
		Host: "localhost", Port: m.port, Addresses: []net.IP{net.IPv4(127, 0, 0, 1)}}
	m.notifyOthers()
	return nil
}

func (m *SimpleMdns) UnannounceMdnsEntry() {
	simrt.Yield("simplemdns.Unannounce")
	if !m.announced {
		return
	}
	m.announced = false
	delete(ether().entries, m.ski)
	m.notifyOthers()
}

func (m *SimpleMdns) SetAutoAccept(b bool) {
	m.register = b
	if e := ether().entries[m.ski]; e != nil {
		e.Register = b
	}
}

func (m *SimpleMdns) QRCodeText() string { return "" }

func (m *SimpleMdns) RequestMdnsEntries() {
	simrt.Yield("simplemdns.Request")
	if m.cb != nil && m.started {
		m.cb.ReportMdnsEntries(m.view(), false)
	}
}

var _ api.MdnsInterface = (*SimpleMdns)(nil)

// NewNodeSimpleMdns builds a node whose hub uses SimpleMdns instead of the MdnsManager.
func NewNodeSimpleMdns(name string, certIdx, port int) *Node {
	tc := testCerts[certIdx]
	c, err := tls.X509KeyPair([]byte(tc.Cert), []byte(tc.Key))
	if err != nil {
		panic(err)
	}
	n := &Node{Name: name, SKI: tc.SKI, Port: port, Cert: c, App: &App{Name: name, AllowWaiting: true}}
	n.Local = api.NewServiceDetails(tc.SKI)
	n.Local.SetShipID("shipid-" + name)
	n.Local.SetDeviceType("EnergyManagementSystem")
	n.Simple = &SimpleMdns{ski: tc.SKI, id: "shipid-" + name, name: "svc-" + name, port: port}
	n.Hub = hub.NewHub(n.App, n.Simple, port, c, n.Local)
	return n
}
