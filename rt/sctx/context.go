// Package sctx replaces "context" in instrumented code; Done channels close through simrt.
package sctx

import (
	"context"
	"time"

	"github.com/enbility/ship-go/zzverif/simrt"
)

type Context = context.Context
type CancelFunc = context.CancelFunc

var Canceled = context.Canceled
var DeadlineExceeded = context.DeadlineExceeded

func Background() Context { return context.Background() }
func TODO() Context       { return context.TODO() }

type cancelCtx struct {
	context.Context
	done     chan struct{}
	err      error
	canceled bool
}

func (c *cancelCtx) Done() <-chan struct{} { return c.done }
func (c *cancelCtx) Err() error            { return c.err }

func WithCancel(parent Context) (Context, CancelFunc) {
	c := &cancelCtx{Context: parent, done: make(chan struct{})}
	return c, func() {
		if c.canceled {
			return
		}
		c.canceled = true
		c.err = context.Canceled
		simrt.Close(c.done)
	}
}

func WithTimeout(parent Context, d time.Duration) (Context, CancelFunc) {
	c := &cancelCtx{Context: parent, done: make(chan struct{})}
	cancel := func() {
		if c.canceled {
			return
		}
		c.canceled = true
		c.err = context.Canceled
		simrt.Close(c.done)
	}
	simrt.NewTimer(d, 0, "ctx-timeout", func() {
		simrt.SpawnFromTimer("ctx-timeout", func() {
			if !c.canceled {
				c.canceled = true
				c.err = context.DeadlineExceeded
				simrt.Close(c.done)
			}
		})
	})
	return c, cancel
}

func WithValue(parent Context, key, val any) Context { return context.WithValue(parent, key, val) }
