// Package mdnsscen: Avahi provider scenarios shared by the C19 and C20 harnesses.
package mdnsscen

import (
	"fmt"
	"net"
	"strings"
	"time"

	"github.com/enbility/ship-go/mdns"
	"github.com/enbility/ship-go/zzverif/fakeavahi"
	"github.com/enbility/ship-go/zzverif/hx"
	"github.com/enbility/ship-go/zzverif/simrt"
)

// C19: mDNS via Avahi survives daemon restarts without stale or lost announcements.

var Events = []string{"down", "dbusup", "up", "tick", "ann1", "ann2", "unann", "browse", "shutdown", "restart"}

type c19world struct {
	d        *fakeavahi.Daemon
	p        *mdns.AvahiProvider
	resolved []string
	want     string // "" = nothing announced, otherwise the txt tag of the latest Announce
	shut     bool
	shutReturned bool
	setupsAtShutdown int
	browsersAtShutdown, groupsAtShutdown int
	nBrowse  int
	cb       func(el map[string]string, name, host string, addrs []net.IP, port int, remove bool)
	restarts int
}

func txtOf(tag string) []string { return []string{"txtvers=1", "id=me", "path=/ship/", "ski=abcd", "register=" + tag} }

func (w *c19world) apply(ev string) {
	switch ev {
	case "down":
		w.d.Disconnect()
	case "dbusup":
		w.d.DBusOnly()
	case "up":
		w.d.Up()
	case "tick":
		simrt.RunFor(1100 * time.Millisecond)
	case "ann1", "ann2":
		tag := "false"
		if ev == "ann2" {
			tag = "true"
		}
		w.want = tag
		_ = w.p.Announce("svc", 4711, txtOf(tag))
	case "unann":
		w.want = ""
		w.p.Unannounce()
	case "browse":
		w.nBrowse++
		name := fmt.Sprintf("peer%d", w.nBrowse)
		svc := fakeavahi.Service{Interface: 1, Protocol: 0, Name: name, Type: "_ship._tcp", Domain: "local", Host: name + ".local", Address: "10.0.0.7", Port: 4712,
			Txt: [][]byte{[]byte("txtvers=1"), []byte("id=" + name), []byte("path=/ship/"), []byte("ski=" + name), []byte("register=false")}}
		w.d.Resolvable = append(w.d.Resolvable, svc)
		w.d.Push(true, svc)
	case "restart":
		// the application starts the provider again after a manual shutdown; nothing is announced until it asks for it
		if w.shutReturned && w.p.Start(true, w.cb) {
			w.shut, w.shutReturned = false, false
			w.want = ""
			w.restarts++
		}
	case "shutdown":
		w.shut = true
		done := false
		simrt.Go("user-shutdown", func() { w.p.Shutdown(); done = true })
		simrt.Quiesce()
		if !done {
			simrt.Fail("C19|shutdown-blocked", "Shutdown did not return (deadlock)")
		} else if !w.shutReturned {
			w.shutReturned = true
			w.setupsAtShutdown = w.d.Setups
			w.browsersAtShutdown = len(w.d.Browsers)
			w.groupsAtShutdown = len(w.d.Groups)
		}
	}
	simrt.Quiesce()
}

func (w *c19world) listeners() int {
	n := 0
	for _, t := range simrt.Threads() {
		if strings.Contains(t.Name, "chanListener") && !t.Done {
			n++
		}
	}
	return n
}

func (w *c19world) invariants(hist []string) {
	last := ""
	if len(hist) > 0 {
		last = hist[len(hist)-1]
	}
	if w.shutReturned {
		if w.d.Setups != w.setupsAtShutdown || len(w.d.Browsers) != w.browsersAtShutdown || len(w.d.Groups) != w.groupsAtShutdown {
			simrt.Fail("C19|restarted-after-shutdown", "after Shutdown returned the provider connected / browsed / announced again (setups %d->%d, browsers %d->%d, entry groups %d->%d; history %v)",
				w.setupsAtShutdown, w.d.Setups, w.browsersAtShutdown, len(w.d.Browsers), w.groupsAtShutdown, len(w.d.Groups), hist)
		}
		if n := w.listeners(); n > 0 && last != "shutdown" {
			simrt.Fail("C19|listener-alive-after-shutdown", "%d listener goroutine(s) still alive after Shutdown (history %v)", n, hist)
		}
		return
	}
	// stable: the daemon is up and a full retry period has passed since the last change
	if w.d.AvahiUp && w.d.DBusUp && last == "tick" {
		if n := w.d.LiveBrowsers(); n != 1 {
			simrt.Fail(fmt.Sprintf("C19|browsers=%d", n), "the daemon is reachable and things have settled but %d service browsers are live instead of 1 (history %v)", n, hist)
		}
		if n := w.listeners(); n != 1 {
			simrt.Fail(fmt.Sprintf("C19|listeners=%d", n), "%d listener goroutines are running instead of 1 (history %v)", n, hist)
		}
		gs := w.d.LiveGroups()
		switch {
		case w.want == "" && len(gs) > 0:
			simrt.Fail("C19|stale-announcement", "nothing is announced at the moment (last request was Unannounce) but the daemon serves %d committed entry group(s) with TXT %v (history %v)", len(gs), gs[0].Services, hist)
		case w.want != "" && len(gs) == 0:
			simrt.Fail("C19|lost-announcement", "an announcement is active but the daemon serves no entry group after it became reachable again (history %v)", hist)
		case w.want != "" && len(gs) > 1:
			simrt.Fail("C19|duplicate-announcement", "%d entry groups are committed at the same time (history %v)", len(gs), hist)
		case w.want != "":
			txt := ""
			if len(gs[0].Services) > 0 {
				txt = strings.Join(gs[0].Services[0].Txt, ",")
			}
			if !strings.Contains(txt, "register="+w.want) {
				simrt.Fail("C19|outdated-txt", "the committed announcement carries %q but the most recently requested TXT has register=%s (history %v)", txt, w.want, hist)
			}
		}
	}
}

func Build() func(hist []string) hx.GView {
	return func(hist []string) hx.GView {
		simrt.ClearTraceHooks()
		w := &c19world{d: fakeavahi.TheDaemon()}
		w.d.Up()
		w.p = mdns.NewAvahiProvider([]int32{fakeavahi.InterfaceUnspec})
		w.cb = func(el map[string]string, name, host string, addrs []net.IP, port int, remove bool) {
			w.resolved = append(w.resolved, fmt.Sprintf("%s:%v", name, remove))
		}
		ok := w.p.Start(true, w.cb)
		if !ok {
			simrt.Fail("engine|start", "AvahiProvider.Start failed with a reachable daemon")
		}
		simrt.Quiesce()
		for i, ev := range hist {
			nres := len(w.resolved)
			w.apply(ev)
			if ev == "browse" && i == len(hist)-1 && !w.shutReturned && w.d.AvahiUp && w.d.LiveBrowsers() > 0 {
				if len(w.resolved) == nres {
					simrt.Fail("C19|browse-result-lost", "a service resolved while the daemon is reachable did not reach the resolver callback (history %v)", hist)
				}
			}
		}
		w.invariants(hist)
		var en []string
		for _, e := range Events {
			if e == "shutdown" && w.shut {
				continue
			}
			if e == "restart" && (!w.shutReturned || w.restarts >= 1 || !w.d.AvahiUp || !w.d.DBusUp) {
				continue
			}
			if w.shut && (e == "ann1" || e == "ann2" || e == "unann") {
				continue
			}
			if e == "up" && w.d.AvahiUp || e == "down" && !w.d.AvahiUp && !w.d.DBusUp {
				continue
			}
			if e == "dbusup" && (w.d.DBusUp || w.d.AvahiUp) {
				continue
			}
			en = append(en, e)
		}
		key := fmt.Sprintf("%s|dbus=%v|up=%v|want=%s|shut=%v|lb=%d|lg=%d|lis=%d|setups>%v|tm=%d|nb=%d|rs=%d", c19snap.Snap(w.p), w.d.DBusUp, w.d.AvahiUp, w.want, w.shutReturned, w.d.LiveBrowsers(), len(w.d.LiveGroups()), w.listeners(),
			w.shutReturned && w.d.Setups != w.setupsAtShutdown, len(simrt.Timers()), min(w.nBrowse, 2), w.restarts)
		obs := strings.Join(w.d.Log, ",")
		// probe (the state key is taken, successors are built by replay): in every state with a reachable daemon and a
		// live browser a service resolved now must reach the resolver callback - states that look alike may still
		// differ in which channels the listener is waiting on
		if !w.shut && w.d.AvahiUp && w.d.LiveBrowsers() > 0 {
			nres := len(w.resolved)
			w.apply("browse")
			if len(w.resolved) == nres {
				simrt.Fail("C19|browse-result-lost", "a service resolved while the daemon is reachable did not reach the resolver callback (probe after history %v)", hist)
			}
		}
		return hx.GView{Key: key, Enabled: en, Obs: obs}
	}
}

var c19snap = hx.NewSnapper("AvahiProvider.avServer", "AvahiProvider.avEntryGroup", "AvahiProvider.avBrowser", "AvahiProvider.resolveCB", "AvahiProvider.serviceElements")

// S part: shutdown racing the reconnect loop / browse results / announce
func RaceBody(kind string) func() {
	return func() {
		simrt.ClearTraceHooks()
		w := &c19world{d: fakeavahi.TheDaemon()}
		w.d.Up()
		w.p = mdns.NewAvahiProvider([]int32{fakeavahi.InterfaceUnspec})
		w.cb = func(el map[string]string, name, host string, addrs []net.IP, port int, remove bool) {
			w.resolved = append(w.resolved, fmt.Sprintf("%s:%v", name, remove))
		}
		w.p.Start(true, w.cb)
		_ = w.p.Announce("svc", 4711, txtOf("false"))
		w.want = "false"
		simrt.Quiesce()
		simrt.Mark()
		shutDone := false
		switch kind {
		case "shutdown-vs-reconnect":
			w.d.Disconnect()
			simrt.Go("daemon-back", func() { w.d.Up() })
			simrt.Go("user-shutdown", func() { w.p.Shutdown(); shutDone = true })
		case "shutdown-vs-browse":
			w.apply("browse")
			svc := w.d.Resolvable[0]
			w.d.Push(true, svc)
			w.d.Push(false, svc)
			simrt.Go("user-shutdown", func() { w.p.Shutdown(); shutDone = true })
		case "shutdown-in-retry-sleep":
			w.d.Disconnect()
			simrt.RunFor(500 * time.Millisecond)
			simrt.Go("user-shutdown", func() { w.p.Shutdown(); shutDone = true })
			simrt.Go("daemon-back", func() { w.d.Up() })
		case "shutdown-at-retry-wakeup":
			// the user's Shutdown becomes runnable at the very instant the retry wait of the reconnect loop ends
			w.d.Disconnect()
			w.d.Up()
			t0 := simrt.Elapsed()
			simrt.Go("user-shutdown", func() {
				simrt.Block("retry-wait-over", func() bool { return simrt.Elapsed() >= t0+time.Second })
				w.p.Shutdown()
				shutDone = true
			})
		case "announce-vs-reconnect":
			w.d.Disconnect()
			w.d.Up()
			simrt.Go("user-announce", func() { _ = w.p.Announce("svc", 4711, txtOf("true")) })
			w.want = "true"
			shutDone = true
		case "unannounce-vs-reconnect":
			// the user withdraws the announcement while the provider reconnects: nothing may be announced afterwards
			w.d.Disconnect()
			w.d.Up()
			simrt.Go("user-unannounce", func() { w.p.Unannounce() })
			w.want = ""
			shutDone = true
		case "announce-vs-disconnect":
			// the daemon goes away and comes back while the user announces new TXT data
			simrt.Go("daemon-bounce", func() { w.d.Disconnect(); w.d.Up() })
			simrt.Go("user-announce", func() { _ = w.p.Announce("svc", 4711, txtOf("true")) })
			w.want = "true"
			shutDone = true
		case "disconnect-at-retry-wakeup":
			// the daemon goes away a second time at the very instant the retry wait of the reconnect loop ends
			w.d.Disconnect()
			w.d.Up()
			t0 := simrt.Elapsed()
			simrt.Go("daemon-bounce", func() {
				simrt.Block("retry-wait-over", func() bool { return simrt.Elapsed() >= t0+time.Second })
				w.d.Disconnect()
				w.d.Up()
			})
			shutDone = true
		case "browse-after-reconnect":
			// a service resolved after the provider is connected again reaches the resolver callback
			w.d.Disconnect()
			w.d.Up()
			simrt.Go("peer-appears", func() {
				simrt.Block("reconnected", func() bool { return w.d.LiveBrowsers() > 0 })
				w.apply("browse")
			})
			shutDone = true
		case "restart-during-retry-sleep":
			// manual shutdown while the reconnect loop sleeps, the daemon returns, the application starts the provider again
			// and announces: the old loop wakes up next to the new connection and has to leave it alone
			w.d.Disconnect()
			simrt.RunFor(500 * time.Millisecond)
			w.p.Shutdown()
			w.d.Up()
			simrt.Go("user-restart", func() {
				if !w.p.Start(true, w.cb) {
					simrt.Fail("C19|restart-refused", "Start after a manual shutdown failed although the daemon is reachable (%s)", kind)
				}
				_ = w.p.Announce("svc", 4711, txtOf("true"))
			})
			w.want = "true"
			shutDone = true
		case "double-disconnect":
			w.d.Disconnect()
			w.d.Up()
			simrt.RunFor(1100 * time.Millisecond)
			w.d.Disconnect()
			w.d.Up()
			shutDone = true
		}
		simrt.RunFor(5 * time.Second)
		if !shutDone {
			simrt.Fail("C19|shutdown-blocked", "Shutdown did not return (%s)", kind)
		}
		if strings.HasPrefix(kind, "shutdown") {
			if n := w.d.LiveBrowsers(); n > 0 {
				simrt.Fail("C19|restarted-after-shutdown", "%d live browser(s) after Shutdown (%s)", n, kind)
			}
			if gs := w.d.LiveGroups(); len(gs) > 0 {
				simrt.Fail("C19|restarted-after-shutdown", "%d committed entry group(s) after Shutdown (%s)", len(gs), kind)
			}
			if n := w.listeners(); n > 0 {
				simrt.Fail("C19|listener-alive-after-shutdown", "%d listener goroutine(s) alive after Shutdown (%s)", n, kind)
			}
		} else {
			if n := w.d.LiveBrowsers(); n != 1 {
				simrt.Fail(fmt.Sprintf("C19|browsers=%d", n), "%d live browsers after things settled (%s)", n, kind)
			}
			if n := w.listeners(); n != 1 {
				simrt.Fail(fmt.Sprintf("C19|listeners=%d", n), "%d listener goroutines are running instead of 1 after things settled (%s)", n, kind)
			}
			if kind == "browse-after-reconnect" && len(w.resolved) == 0 {
				simrt.Fail("C19|browse-result-lost", "a service resolved after the provider had reconnected did not reach the resolver callback (%s)", kind)
			}
			gs := w.d.LiveGroups()
			if w.want == "" {
				if len(gs) > 0 {
					simrt.Fail("C19|stale-announcement", "the announcement was withdrawn while the provider reconnected but the daemon serves %d committed entry group(s) (%s)", len(gs), kind)
				}
			} else if len(gs) != 1 {
				simrt.Fail(fmt.Sprintf("C19|groups=%d", len(gs)), "%d committed entry groups after things settled (%s)", len(gs), kind)
			} else if !strings.Contains(strings.Join(gs[0].Services[0].Txt, ","), "register="+w.want) {
				simrt.Fail("C19|outdated-txt", "committed TXT %v, most recently requested register=%s (%s)", gs[0].Services[0].Txt, w.want, kind)
			}
		}
		simrt.Outcome(fmt.Sprintf("lb=%d lg=%d lis=%d", w.d.LiveBrowsers(), len(w.d.LiveGroups()), w.listeners()))
	}
}

