// Package ssync replaces "sync" in instrumented code: every blocking operation is a simrt scheduling point.
package ssync

import (
	"sync"

	"github.com/enbility/ship-go/zzverif/simrt"
)

type Locker = sync.Locker
// Pool is a deterministic model of sync.Pool: Get hands out the most recently Put object (the behaviour that
// makes use-after-Put bugs visible), else New(). Only one sim thread runs at a time, so no locking is needed.
type Pool struct {
	New   func() any
	items []any
}

func (p *Pool) Get() any {
	if n := len(p.items); n > 0 {
		x := p.items[n-1]
		p.items = p.items[:n-1]
		return x
	}
	if p.New != nil {
		return p.New()
	}
	return nil
}

func (p *Pool) Put(x any) {
	if x != nil {
		p.items = append(p.items, x)
	}
}

type Mutex struct{ m simrt.Mutex }

func (m *Mutex) Lock()         { m.m.Lock() }
func (m *Mutex) Unlock()       { m.m.Unlock() }
func (m *Mutex) TryLock() bool { return m.m.TryLock() }

type RWMutex struct{ m simrt.RWMutex }

func (m *RWMutex) Lock()          { m.m.Lock() }
func (m *RWMutex) Unlock()        { m.m.Unlock() }
func (m *RWMutex) RLock()         { m.m.RLock() }
func (m *RWMutex) RUnlock()       { m.m.RUnlock() }
func (m *RWMutex) TryLock() bool  { return m.m.TryLock() }
func (m *RWMutex) TryRLock() bool { return m.m.TryRLock() }
func (m *RWMutex) RLocker() Locker { return rlocker{m} }

type rlocker struct{ m *RWMutex }

func (r rlocker) Lock()   { r.m.RLock() }
func (r rlocker) Unlock() { r.m.RUnlock() }

type Once struct{ o simrt.Once }

func (o *Once) Do(f func()) { o.o.Do(f) }

func OnceFunc(f func()) func() {
	var o Once
	return func() { o.Do(f) }
}

type WaitGroup struct{ w simrt.WaitGroup }

func (w *WaitGroup) Add(n int) { w.w.Add(n) }
func (w *WaitGroup) Done()     { w.w.Add(-1) }
func (w *WaitGroup) Wait()     { w.w.Wait() }

type Cond struct {
	L Locker
	c simrt.Cond
}

func NewCond(l Locker) *Cond { return &Cond{L: l} }
func (c *Cond) Wait()        { c.c.Wait(c.L) }
func (c *Cond) Signal()      { c.c.Signal() }
func (c *Cond) Broadcast()   { c.c.Broadcast() }

// Map is a plain map guarded by a sim mutex (operations are scheduling points through the mutex).
type Map struct {
	mu Mutex
	m  map[any]any
	ks []any
}

func (m *Map) Load(k any) (any, bool) {
	m.mu.Lock()
	defer m.mu.Unlock()
	v, ok := m.m[k]
	return v, ok
}
func (m *Map) Store(k, v any) {
	m.mu.Lock()
	defer m.mu.Unlock()
	if m.m == nil {
		m.m = map[any]any{}
	}
	if _, ok := m.m[k]; !ok {
		m.ks = append(m.ks, k)
	}
	m.m[k] = v
}
func (m *Map) LoadOrStore(k, v any) (any, bool) {
	m.mu.Lock()
	defer m.mu.Unlock()
	if m.m == nil {
		m.m = map[any]any{}
	}
	if old, ok := m.m[k]; ok {
		return old, true
	}
	m.ks = append(m.ks, k)
	m.m[k] = v
	return v, false
}
func (m *Map) LoadAndDelete(k any) (any, bool) {
	m.mu.Lock()
	defer m.mu.Unlock()
	v, ok := m.m[k]
	if ok {
		delete(m.m, k)
		m.dropKey(k)
	}
	return v, ok
}
func (m *Map) Delete(k any) { m.LoadAndDelete(k) }
func (m *Map) dropKey(k any) {
	for i, x := range m.ks {
		if x == k {
			m.ks = append(m.ks[:i:i], m.ks[i+1:]...)
			return
		}
	}
}
func (m *Map) Range(f func(k, v any) bool) {
	m.mu.Lock()
	ks := append([]any(nil), m.ks...)
	m.mu.Unlock()
	for _, k := range ks {
		v, ok := m.Load(k)
		if !ok {
			continue
		}
		if !f(k, v) {
			return
		}
	}
}
