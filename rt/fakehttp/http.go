// Package fakehttp replaces net/http in package hub of the instrumented copy: servers register
// in a simulated network (per execution) instead of listening on sockets.
package fakehttp

import (
	"context"
	"errors"
	"fmt"
	"io"
	"net/http"
	"net/url"
	"strings"
	"time"

	"github.com/enbility/ship-go/zzverif/faketls"
	"github.com/enbility/ship-go/zzverif/simrt"
)

type Header = http.Header

var ErrServerClosed = http.ErrServerClosed

const (
	StatusOK                  = http.StatusOK
	StatusBadRequest          = http.StatusBadRequest
	StatusSwitchingProtocols  = http.StatusSwitchingProtocols
	StatusInternalServerError = http.StatusInternalServerError
)

type Handler interface {
	ServeHTTP(ResponseWriter, *Request)
}

type HandlerFunc func(ResponseWriter, *Request)

func (f HandlerFunc) ServeHTTP(w ResponseWriter, r *Request) { f(w, r) }

type ResponseWriter interface {
	Header() Header
	Write([]byte) (int, error)
	WriteHeader(statusCode int)
}

// Request is the subset of http.Request ship-go reads.
type Request struct {
	Method     string
	URL        *url.URL
	Header     Header
	Host       string
	RemoteAddr string
	TLS        *faketls.ConnectionState
}

type Response struct {
	Status     string
	StatusCode int
	Header     Header
	Body       io.ReadCloser
}

type nopBody struct{}

func (nopBody) Read([]byte) (int, error) { return 0, io.EOF }
func (nopBody) Close() error             { return nil }

func NewResponse(code int) *Response {
	return &Response{StatusCode: code, Status: fmt.Sprint(code), Header: Header{}, Body: nopBody{}}
}

func ProxyFromEnvironment(*Request) (*url.URL, error) { return nil, nil }

func Error(w ResponseWriter, msg string, code int) { w.WriteHeader(code) }

// Server is the model of http.Server.
type Server struct {
	Addr              string
	Handler           Handler
	ReadHeaderTimeout time.Duration
	ReadTimeout       time.Duration
	WriteTimeout      time.Duration
	IdleTimeout       time.Duration
	TLSConfig         *faketls.Config

	listening bool
	shutdown  bool
	h         uint64
}

type network struct {
	servers map[string]*Server // port -> server
	h       uint64
	Dials   []Dial
}

// Dial records one connection attempt in the simulated network.
type Dial struct {
	At      time.Duration
	From    string // SKI (subject key id hex) of the dialling certificate, if any
	Port    string
	Refused bool
}

func net() *network {
	return simrt.Local("fakehttp.net", func() any { return &network{servers: map[string]*Server{}} }).(*network)
}

// Dials returns the dial log of the current execution.
func Dials() []Dial { return net().Dials }

func RecordDial(d Dial) { n := net(); n.Dials = append(n.Dials, d) }

func portOf(addr string) string {
	if i := strings.LastIndex(addr, ":"); i >= 0 {
		return addr[i+1:]
	}
	return addr
}

// Lookup returns the server listening on the port, if any.
func Lookup(port string) *Server {
	n := net()
	simrt.TouchCell(&n.h)
	s := n.servers[port]
	if s == nil || !s.listening {
		return nil
	}
	return s
}

func (s *Server) ListenAndServeTLS(certFile, keyFile string) error {
	n := net()
	simrt.BlockOn("http.Listen "+s.Addr, []*uint64{&n.h}, nil)
	if s.shutdown {
		return ErrServerClosed
	}
	p := portOf(s.Addr)
	if other := n.servers[p]; other != nil && other.listening {
		return errors.New("listen tcp " + s.Addr + ": bind: address already in use")
	}
	n.servers[p] = s
	s.listening = true
	simrt.BlockOn("http.Serve "+s.Addr, []*uint64{&s.h}, func() bool { return s.shutdown })
	return ErrServerClosed
}

func (s *Server) ListenAndServe() error { return s.ListenAndServeTLS("", "") }

// Shutdown stops accepting; established (hijacked) websocket connections are left alone, as in net/http.
func (s *Server) Shutdown(ctx context.Context) error {
	n := net()
	simrt.BlockOn("http.Shutdown "+s.Addr, []*uint64{&n.h, &s.h}, nil)
	s.shutdown = true
	s.listening = false
	return nil
}

func (s *Server) Close() error { return s.Shutdown(context.Background()) }
