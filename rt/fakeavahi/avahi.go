// Package fakeavahi replaces github.com/enbility/go-avahi: a scriptable Avahi daemon.
package fakeavahi

import (
	"errors"

	"github.com/enbility/ship-go/zzverif/simrt"
)

type Event uint

const Disconnected = 0

const (
	ProtoInet       = 0
	ProtoInet6      = 1
	ProtoUnspec     = -1
	InterfaceUnspec = -1
)

type EventCB func(event Event)

type Service struct {
	Interface int32
	Protocol  int32
	Name      string
	Type      string
	Domain    string
	Host      string
	Aprotocol int32
	Address   string
	Port      uint16
	Txt       [][]byte
	Flags     uint32
}

// ServerInterface is the part of go-avahi's ServerInterface ship-go uses.
type ServerInterface interface {
	Setup(eventCB EventCB) error
	Start()
	Shutdown()
	EntryGroupNew() (EntryGroupInterface, error)
	EntryGroupFree(r EntryGroupInterface)
	ResolveService(iface, protocol int32, name, serviceType, domain string, aprotocol int32, flags uint32) (reply Service, err error)
	ServiceBrowserNew(addChan, removeChan chan Service, iface, protocol int32, serviceType string, domain string, flags uint32) (ServiceBrowserInterface, error)
	ServiceBrowserFree(r ServiceBrowserInterface)
	GetAPIVersion() (int32, error)
}

type EntryGroupInterface interface {
	Commit() error
	Reset() error
	AddService(iface, protocol int32, flags uint32, name, serviceType, domain, host string, port uint16, txt [][]byte) error
}

type ServiceBrowserInterface interface {
	Free()
}

// Daemon is the scriptable state shared by all fake servers of one execution.
type Daemon struct {
	DBusUp   bool // Setup succeeds
	AvahiUp  bool // API calls succeed
	Servers  []*Server
	Groups   []*EntryGroup
	Browsers []*Browser
	Setups   int
	Log      []string
	Resolvable []Service // services the daemon can resolve
	mu       simrt.Mutex // like go-avahi's server mutex: held while a signal is dispatched into a browser channel
	h        uint64
}

func TheDaemon() *Daemon {
	return simrt.Local("fakeavahi.daemon", func() any { return &Daemon{} }).(*Daemon)
}

func (d *Daemon) log(s string) { d.Log = append(d.Log, s) }

type Server struct {
	d       *Daemon
	cb      EventCB
	setup   bool
	started bool
	shut    int
}

type EntryGroup struct {
	d         *Daemon
	owner     *Server
	Services  []GroupService
	Committed bool
	Freed     bool
}

type GroupService struct {
	Name string
	Port uint16
	Txt  []string
}

type Browser struct {
	d      *Daemon
	owner  *Server
	Add    chan Service
	Remove chan Service
	Freed  bool
}

func (b *Browser) Free() { b.Freed = true }

func ServerNew() ServerInterface {
	d := TheDaemon()
	s := &Server{d: d}
	d.Servers = append(d.Servers, s)
	return s
}

func (s *Server) Setup(cb EventCB) error {
	simrt.BlockOn("avahi.Setup", []*uint64{&s.d.h}, nil)
	s.d.Setups++
	s.d.log("Setup")
	if !s.d.DBusUp {
		return errors.New("dbus: system bus not available")
	}
	s.cb = cb
	s.setup = true
	return nil
}

func (s *Server) Start() { s.started = true; s.d.log("Start") }

func (s *Server) Shutdown() {
	simrt.BlockOn("avahi.Shutdown", []*uint64{&s.d.h}, nil)
	s.shut++
	s.started = false
	// go-avahi frees everything this connection created and closes the D-Bus connection: calls made afterwards fail
	// until Setup is called again; closing the connection makes it invoke the event callback with Disconnected from a
	// goroutine of its own (Server.shutdown: "go c.eventCB(Disconnected)"), also when the application shuts down
	if s.setup && s.cb != nil {
		cb := s.cb
		simrt.Go("avahi.eventCB", func() { cb(Disconnected) })
	}
	s.setup = false
	for _, g := range s.d.Groups {
		if g.owner == s {
			g.Freed = true
		}
	}
	for _, b := range s.d.Browsers {
		if b.owner == s {
			b.Freed = true
		}
	}
	s.d.log("Shutdown")
}

func (s *Server) GetAPIVersion() (int32, error) {
	simrt.BlockOn("avahi.GetAPIVersion", []*uint64{&s.d.h}, nil)
	if !s.d.AvahiUp || !s.setup {
		return 0, errors.New("avahi: daemon not running")
	}
	return 516, nil
}

func (s *Server) EntryGroupNew() (EntryGroupInterface, error) {
	simrt.BlockOn("avahi.EntryGroupNew", []*uint64{&s.d.h}, nil)
	if !s.d.AvahiUp || !s.setup {
		return nil, errors.New("avahi: daemon not running")
	}
	g := &EntryGroup{d: s.d, owner: s}
	s.d.Groups = append(s.d.Groups, g)
	s.d.log("EntryGroupNew")
	return g, nil
}

func (s *Server) EntryGroupFree(r EntryGroupInterface) {
	simrt.BlockOn("avahi.EntryGroupFree", []*uint64{&s.d.h}, nil)
	if g, ok := r.(*EntryGroup); ok && g != nil {
		g.Freed = true
		s.d.log("EntryGroupFree")
	}
}

func (g *EntryGroup) AddService(iface, protocol int32, flags uint32, name, serviceType, domain, host string, port uint16, txt [][]byte) error {
	if !g.d.AvahiUp {
		return errors.New("avahi: daemon not running")
	}
	gs := GroupService{Name: name, Port: port}
	for _, t := range txt {
		gs.Txt = append(gs.Txt, string(t))
	}
	g.Services = append(g.Services, gs)
	return nil
}

func (g *EntryGroup) Commit() error {
	simrt.BlockOn("avahi.Commit", []*uint64{&g.d.h}, nil)
	if !g.d.AvahiUp {
		return errors.New("avahi: daemon not running")
	}
	g.Committed = true
	g.d.log("Commit")
	return nil
}

func (g *EntryGroup) Reset() error { g.Services = nil; g.Committed = false; return nil }

func (s *Server) ServiceBrowserNew(addChan, removeChan chan Service, iface, protocol int32, serviceType string, domain string, flags uint32) (ServiceBrowserInterface, error) {
	simrt.BlockOn("avahi.ServiceBrowserNew", []*uint64{&s.d.h}, nil)
	if !s.d.AvahiUp || !s.setup {
		return nil, errors.New("avahi: daemon not running")
	}
	b := &Browser{d: s.d, owner: s, Add: addChan, Remove: removeChan}
	s.d.Browsers = append(s.d.Browsers, b)
	s.d.log("ServiceBrowserNew")
	return b, nil
}

func (s *Server) ServiceBrowserFree(r ServiceBrowserInterface) {
	simrt.BlockOn("avahi.ServiceBrowserFree", []*uint64{&s.d.h}, nil)
	if b, ok := r.(*Browser); ok && b != nil {
		// waits for a dispatch in flight, as the real library does (signal dispatch and free share a mutex)
		s.d.mu.Lock()
		b.Freed = true
		s.d.mu.Unlock()
		s.d.log("ServiceBrowserFree")
	}
}

// Push delivers a browse result (add or remove) to every live browser, each on its own goroutine
// (the daemon's signal handling); a freed browser never receives anything.
func (d *Daemon) Push(add bool, svc Service) {
	simrt.TouchCell(&d.h)
	for _, b := range d.Browsers {
		if b.Freed {
			continue
		}
		b := b
		simrt.Go("avahi.dispatch", func() {
			d.mu.Lock()
			defer d.mu.Unlock()
			if b.Freed {
				return
			}
			if add {
				simrt.Send(b.Add, svc)
			} else {
				simrt.Send(b.Remove, svc)
			}
		})
	}
}

// LiveBrowsers / LiveGroups count what the daemon currently serves.
func (d *Daemon) LiveBrowsers() int {
	n := 0
	for _, b := range d.Browsers {
		if !b.Freed {
			n++
		}
	}
	return n
}

func (d *Daemon) LiveGroups() []*EntryGroup {
	var out []*EntryGroup
	for _, g := range d.Groups {
		if !g.Freed && g.Committed {
			out = append(out, g)
		}
	}
	return out
}

func (s *Server) ResolveService(iface, protocol int32, name, serviceType, domain string, aprotocol int32, flags uint32) (Service, error) {
	simrt.BlockOn("avahi.ResolveService", []*uint64{&s.d.h}, nil)
	if !s.d.AvahiUp {
		return Service{}, errors.New("avahi: daemon not running")
	}
	for _, r := range s.d.Resolvable {
		if r.Name == name {
			return r, nil
		}
	}
	return Service{}, errors.New("avahi: timeout resolving " + name)
}

// Disconnect simulates the daemon (or D-Bus) going away: every set-up server gets the event
// on its own goroutine, like go-avahi's Server.shutdown does; live browsers and groups die.
func (d *Daemon) Disconnect() {
	simrt.TouchCell(&d.h)
	d.AvahiUp = false
	d.DBusUp = false
	d.log("daemon-down")
	for _, b := range d.Browsers {
		b.Freed = true
	}
	for _, g := range d.Groups {
		g.Freed = true
	}
	for _, s := range d.Servers {
		if s.setup && s.cb != nil {
			s.setup = false
			cb := s.cb
			simrt.Go("avahi.eventCB", func() { cb(Disconnected) })
		}
	}
}

// DBusOnly makes the system bus reachable while the Avahi daemon is still away (the usual situation while the daemon
// restarts): Setup succeeds, the API calls fail.
func (d *Daemon) DBusOnly() {
	simrt.TouchCell(&d.h)
	d.DBusUp, d.AvahiUp = true, false
	d.log("dbus-up")
}

// Up makes D-Bus and the daemon reachable again.
func (d *Daemon) Up() {
	simrt.TouchCell(&d.h)
	d.DBusUp, d.AvahiUp = true, true
	d.log("daemon-up")
}
