// Package shipx: fakes and message alphabet for harnesses at the ShipConnection level.
package shipx

import (
	"reflect"
	"errors"
	"fmt"
	"strings"
	"time"

	"github.com/enbility/ship-go/api"
	"github.com/enbility/ship-go/model"
	"github.com/enbility/ship-go/zzverif/simrt"
)

// Ev is one observation in an endpoint's log.
type Ev struct {
	T    time.Duration
	Kind string // state, setup, shipid, closed, write, wsclose, payload, err
	Arg  string
	N    int
}

func (e Ev) String() string { return fmt.Sprintf("%s(%s)", e.Kind, e.Arg) }

// Log is the ordered list of observations of one endpoint.
type Log struct {
	Name string
	Evs  []Ev
}

func (l *Log) add(kind, arg string, n int) {
	simrt.Touch("log:" + l.Name)
	simrt.TouchVal(simrt.HashString(kind + "|" + arg))
	l.Evs = append(l.Evs, Ev{T: simrt.Elapsed(), Kind: kind, Arg: arg, N: n})
}

func (l *Log) Count(kind string) int {
	n := 0
	for _, e := range l.Evs {
		if e.Kind == kind {
			n++
		}
	}
	return n
}

func (l *Log) Strings(from int) []string {
	var out []string
	for _, e := range l.Evs[from:] {
		out = append(out, e.String())
	}
	return out
}

// Writer is a fake transport (api.WebsocketDataWriterInterface).
type Writer struct {
	L          *Log
	Reader     api.WebsocketDataReaderInterface
	Frames     [][]byte
	Closed     bool
	ClosedErr  error
	CloseCalls int
	CloseCode  int
	Reason     string
	FailAt     int // 1-based index of the write that fails (0 = none)
	Writes     int
	OnWrite    func(msg []byte) // delivery hook (pair harness)
	OnClose    func(code int, reason string)
}

var _ api.WebsocketDataWriterInterface = (*Writer)(nil)

func (w *Writer) InitDataProcessing(r api.WebsocketDataReaderInterface) { w.Reader = r }

func (w *Writer) WriteMessageToWebsocketConnection(msg []byte) error {
	if w.Closed {
		return errors.New("connection is closed")
	}
	w.Writes++
	if w.FailAt == w.Writes {
		w.L.add("writefail", Describe(msg), w.Writes)
		return errors.New("injected write failure")
	}
	cp := append([]byte(nil), msg...)
	w.Frames = append(w.Frames, cp)
	w.L.add("write", Describe(msg), w.Writes)
	if w.OnWrite != nil {
		w.OnWrite(cp)
	}
	return nil
}

func (w *Writer) CloseDataConnection(code int, reason string) {
	w.CloseCalls++
	w.L.add("wsclose", fmt.Sprintf("%d,%s", code, reason), w.CloseCalls)
	if !w.Closed {
		w.Closed = true
		w.CloseCode, w.Reason = code, reason
		if w.OnClose != nil {
			w.OnClose(code, reason)
		}
	}
}

func (w *Writer) IsDataConnectionClosed() (bool, error) {
	if w.Closed {
		if w.ClosedErr != nil {
			return true, w.ClosedErr
		}
		return true, errors.New("connection is closed")
	}
	return false, nil
}

// Provider is a fake api.ShipConnectionInfoProviderInterface with a configurable trust answer.
type Provider struct {
	L            *Log
	Paired       bool
	AutoAccept   bool
	AllowWaiting bool
	Payloads     [][]byte
	SetupCount   int
	ShipIDs      []string
	ClosedCalls  int
	States       []model.ShipMessageExchangeState
	OnState      func(st model.ShipState)
	Writer       api.ShipConnectionDataWriterInterface
}

var _ api.ShipConnectionInfoProviderInterface = (*Provider)(nil)

func (p *Provider) IsRemoteServiceForSKIPaired(string) bool { return p.Paired }
func (p *Provider) IsAutoAcceptEnabled() bool               { return p.AutoAccept }
func (p *Provider) AllowWaitingForTrust(string) bool        { return p.AllowWaiting }
func (p *Provider) HandleConnectionClosed(c api.ShipConnectionInterface, completed bool) {
	p.ClosedCalls++
	p.L.add("closed", fmt.Sprint(completed), p.ClosedCalls)
}
func (p *Provider) ReportServiceShipID(ski, id string) {
	p.ShipIDs = append(p.ShipIDs, id)
	p.L.add("shipid", id, len(p.ShipIDs))
}
func (p *Provider) HandleShipHandshakeStateUpdate(ski string, st model.ShipState) {
	p.States = append(p.States, st.State)
	arg := fmt.Sprint(uint(st.State))
	if st.Error != nil {
		arg += ":" + st.Error.Error()
	}
	p.L.add("state", arg, int(st.State))
	if p.OnState != nil {
		p.OnState(st)
	}
}
func (p *Provider) SetupRemoteDevice(ski string, w api.ShipConnectionDataWriterInterface) api.ShipConnectionDataReaderInterface {
	p.SetupCount++
	p.Writer = w
	p.L.add("setup", ski, p.SetupCount)
	return &reader{p}
}

type reader struct{ p *Provider }

func (r *reader) HandleShipPayloadMessage(msg []byte) {
	r.p.Payloads = append(r.p.Payloads, append([]byte(nil), msg...))
	r.p.L.add("payload", string(msg), len(r.p.Payloads))
}

// ---- message alphabet ----

func ctl(js string) []byte  { return append([]byte{model.MsgTypeControl}, js...) }
func end(js string) []byte  { return append([]byte{model.MsgTypeEnd}, js...) }
func data(js string) []byte { return append([]byte{model.MsgTypeData}, js...) }

func Init() []byte { return []byte{0, 0} }

// Hello builds a connectionHello; waiting<0 and prolong==0 omit the members (prolong: 1 true, 2 false).
func Hello(phase string, waiting int64, prolong int) []byte {
	s := `{"connectionHello":[{"phase":"` + phase + `"}`
	if waiting >= 0 {
		s += fmt.Sprintf(`,{"waiting":%d}`, waiting)
	}
	if prolong == 1 {
		s += `,{"prolongationRequest":true}`
	} else if prolong == 2 {
		s += `,{"prolongationRequest":false}`
	}
	return ctl(s + `]}`)
}

func Prot(typ string, major, minor int, formats string) []byte {
	s := fmt.Sprintf(`{"messageProtocolHandshake":[{"handshakeType":"%s"},{"version":[{"major":%d},{"minor":%d}]}`, typ, major, minor)
	if formats != "-" {
		s += `,{"formats":[{"format":` + formats + `}]}`
	}
	return ctl(s + `]}`)
}

func ProtError(code int) []byte {
	return ctl(fmt.Sprintf(`{"messageProtocolHandshakeError":[{"error":%d}]}`, code))
}
func Pin(state string) []byte { return ctl(`{"connectionPinState":[{"pinState":"` + state + `"}]}`) }
func AccessRequest() []byte  { return ctl(`{"accessMethodsRequest":[]}`) }
func AccessMethods(id string) []byte {
	return ctl(`{"accessMethods":[{"id":"` + id + `"}]}`)
}
func AccessMethodsRaw(member string) []byte { return ctl(`{"accessMethods":[` + member + `]}`) }
func CloseMsg(phase string) []byte {
	if phase == "announce" {
		return end(`{"connectionClose":[{"phase":"announce"},{"maxTime":500}]}`)
	}
	return end(`{"connectionClose":[{"phase":"` + phase + `"}]}`)
}
func Data(payload string) []byte {
	return data(`{"data":[{"header":[{"protocolId":"ee1.0"}]},{"payload":` + payload + `}]}`)
}
func Datagram(n int) string {
	return fmt.Sprintf(`{"datagram":[{"header":[{"msgCounter":%d}]},{"payload":[{"cmd":[{"function":"f"}]}]}]}`, n)
}

// DatagramPlain is Datagram(n) in plain JSON, as the receiving application must see it.
func DatagramPlain(n int) string {
	return fmt.Sprintf(`{"datagram":{"header":{"msgCounter":%d},"payload":{"cmd":{"function":"f"}}}}`, n)
}

// Describe renders a frame compactly for logs and samples.
func Describe(msg []byte) string {
	if len(msg) == 0 {
		return "<empty>"
	}
	if len(msg) <= 2 || msg[0] == 0 {
		return fmt.Sprintf("%x", msg)
	}
	s := string(msg[1:])
	if len(s) > 90 {
		s = s[:90] + "…"
	}
	s = strings.ReplaceAll(s, `"`, "")
	return fmt.Sprintf("%d:%s", msg[0], s)
}

// StateName gives a readable name for a handshake state.
func StateName(s model.ShipMessageExchangeState) string {
	names := map[uint]string{0: "InitStart", 1: "ClientSend", 2: "ClientWait", 3: "ClientEvaluate", 4: "ServerWait", 5: "ServerEvaluate",
		6: "Hello", 7: "HelloReadyInit", 8: "HelloReadyListen", 9: "HelloReadyTimeout", 10: "HelloPendingInit", 11: "HelloPendingListen",
		12: "HelloPendingTimeout", 13: "HelloOk", 14: "HelloAbort", 15: "HelloAbortDone", 16: "HelloRemoteAbortDone", 17: "HelloRejected",
		18: "ProtServerInit", 19: "ProtClientInit", 20: "ProtServerListenProposal", 21: "ProtServerListenConfirm", 22: "ProtClientListenChoice",
		23: "ProtTimeout", 24: "ProtClientOk", 25: "ProtServerOk", 26: "PinCheckInit", 27: "PinCheckListen", 28: "PinCheckError",
		31: "PinCheckOk", 36: "AccessMethodsRequest", 37: "Approved", 38: "Complete", 39: "Error"}
	if n, ok := names[uint(s)]; ok {
		return n
	}
	return fmt.Sprintf("State%d", uint(s))
}

// ---- handshake timer discipline monitor (C14), driven by vinstr entry trace hooks ----

// TimerMonitor tracks, per connection object, the most recently armed handshake timer and
// whether it was stopped; every delivered timeout is checked against it.
type TimerMonitor struct {
	latest    map[any]*armed
	Deliveries int
	Arms       int
	Stops      int
	Seen       bool // any trace hook fired at all (the hooks exist in this build)
	Strict     bool // timely mode: a legitimate timeout arrives exactly at its deadline
}

type armed struct {
	deadline  time.Duration
	stopped   bool
	delivered bool
	stoppedAt time.Duration
	armedAt   time.Duration
	kind      uint64 // ship.timeoutTimerType: 0 wait for ready, 1 send prolongation request, 2 reply to the own prolongation request
	answered  bool   // kind 2: the peer's reply (hello pending with a waiting value) was handed to the connection after this timer was armed
}

// isProlongationReply: a connectionHello with phase pending and a waiting value and without a prolongation request -
// the reply SHIP 13.4.4.1.3 defines for a prolongation request
func isProlongationReply(m []byte) bool {
	s := string(m)
	return strings.Contains(s, `"connectionHello"`) && strings.Contains(s, `"phase":"pending"`) && strings.Contains(s, `"waiting"`) && !strings.Contains(s, `"prolongationRequest"`)
}

// Answered: the latest timer of the connection is still pending although the reply it waited for has arrived
// (ghost state the delivery check depends on: it belongs into the state key of a search).
func (m *TimerMonitor) Answered(conn any) bool {
	a := m.latest[conn]
	return a != nil && a.answered && !a.stopped && !a.delivered
}

// InstallTimerMonitor registers the monitor on the trace hooks of the current execution.
// Call simrt.ClearTraceHooks() at the start of every execution body first.
func InstallTimerMonitor() *TimerMonitor {
	m := &TimerMonitor{latest: map[any]*armed{}}
	simrt.OnTrace(func(name string, args []any) {
		switch name {
		case "ship.(*ShipConnection).setHandshakeTimer:ret":
			if len(args) < 3 {
				return
			}
			m.Seen = true
			m.Arms++
			d, _ := args[2].(time.Duration)
			a := &armed{deadline: simrt.Elapsed() + d, armedAt: simrt.Elapsed()}
			if v := reflect.ValueOf(args[1]); v.CanUint() {
				a.kind = v.Uint()
			}
			m.latest[args[0]] = a
		case "ship.(*ShipConnection).stopHandshakeTimer":
			if len(args) < 1 {
				return
			}
			m.Seen = true
			m.Stops++
			if a := m.latest[args[0]]; a != nil && !a.stopped {
				a.stopped = true
				a.stoppedAt = simrt.Elapsed()
			}
		case "ship.(*ShipConnection).handleState":
			if len(args) < 2 {
				return
			}
			to, _ := args[1].(bool)
			if !to {
				// the consequence C14 draws: the reply to the own prolongation request arrived, so the timer that waited for it
				// has done its duty - whatever the connection does with the reply, that timer must not tear it down later
				if len(args) >= 3 {
					if msg, ok := args[2].([]byte); ok && isProlongationReply(msg) {
						if a := m.latest[args[0]]; a != nil && a.kind == 2 && !a.delivered && !a.stopped && simrt.Elapsed() < a.deadline {
							a.answered = true
						}
					}
				}
				return
			}
			m.Deliveries++
			now := simrt.Elapsed()
			a := m.latest[args[0]]
			switch {
			case a == nil:
				simrt.Fail("C14|timeout-without-armed-timer", "a handshake timeout was delivered at %v although no timer was armed", now)
			case a.stopped && a.stoppedAt < now:
				simrt.Fail("C14|stopped-timer-fired", "a handshake timeout was delivered at %v although the latest timer (armed %v, due %v) was stopped at %v", now, a.armedAt, a.deadline, a.stoppedAt)
			case a.answered:
				simrt.Fail("C14|answered-timer-fired", "a handshake timeout was delivered at %v by the timer that waited for the reply to the own prolongation request (armed %v, due %v) although that reply had arrived in time: the connection progressed and is torn down by the timeout of the earlier step", now, a.armedAt, a.deadline)
			case a.delivered && now > a.deadline:
				simrt.Fail("C14|replaced-timer-fired", "a handshake timeout was delivered at %v after the latest armed timer (armed %v, due %v) had already delivered: an earlier, replaced timer fired", now, a.armedAt, a.deadline)
			case a.delivered:
				simrt.Fail("C14|timer-fired-twice", "a second handshake timeout was delivered at %v for the timer armed at %v", now, a.armedAt)
			case now < a.deadline || (m.Strict && now != a.deadline):
				simrt.Fail("C14|replaced-timer-fired", "a handshake timeout was delivered at %v but the latest armed timer (armed %v) is due at %v: an earlier, replaced timer fired", now, a.armedAt, a.deadline)
			default:
				a.delivered = true
			}
		}
	})
	return m
}
