package hx

import (
	"encoding/json"
	"fmt"
	"os"
	"sort"
	"time"

	"github.com/enbility/ship-go/zzverif/simrt"
)

// Scenario is one closed harness body explored by the schedule explorer.
type Scenario struct {
	Name   string
	Body   func()
	Bounds simrt.Bounds
	Cfg    simrt.Config
	// Classify: extra per-execution checks in scheduler context (optional)
	Classify func(x *simrt.Exec) []simrt.Failure
}

type sTask struct {
	Idx      int   `json:"i"`
	Level    int   `json:"l"`
	Prefix   []int `json:"p,omitempty"`
	Whole    bool  `json:"w"`
	Deadline int64 `json:"d"` // unix nanos
	MaxExecs int   `json:"m"`
}

type sResult struct {
	Idx       int            `json:"i"`
	Execs     int            `json:"e"`
	Points    int            `json:"pt"`
	MaxPoints int            `json:"mp"`
	MaxThr    int            `json:"mt"`
	Capped    bool           `json:"c"`
	Diverged  int            `json:"dv"`
	FirstDiv  string         `json:"fd,omitempty"`
	Outcomes  map[string]int `json:"o"`
	Found     []*simrt.Found `json:"f"`
	Tasks     [][]int        `json:"t,omitempty"`
}

// SSummary is the merged result of exploring a list of scenarios.
type SSummary struct {
	Scenarios  int
	Execs      int
	Points     int
	MaxPoints  int
	MaxThreads int
	Capped     bool
	Outcomes   map[string]int
	Found      map[string]*FoundAt
	PerScen    map[string]int
	Diverged   int
	FirstDiv   string
	// iterative bounding
	CompletedBound int   // highest total deviation bound explored completely (-1 = none)
	TargetBound    int   // the tier's target
	LevelExecs     []int // executions per level
	PartialExecs   int   // executions of the level the deadline interrupted
}

// Coverage renders the common coverage keys of a schedule exploration.
func (s *SSummary) Coverage() map[string]any {
	return map[string]any{
		"states":                        s.Points + s.Execs,
		"transitions":                   s.Points + s.Execs,
		"traces_validated_against_impl": s.Execs,
		"executions":                    s.Execs,
		"scenarios":                     s.Scenarios,
		"choice_points":                 s.Points,
		"max_points_per_execution":      s.MaxPoints,
		"max_threads":                   s.MaxThreads,
		"distinct_outcomes":             len(s.Outcomes),
		"outcomes":                      s.Outcomes,
		"completed_deviation_bound":     s.CompletedBound,
		"target_deviation_bound":        s.TargetBound,
		"executions_per_bound":          s.LevelExecs,
		"partial_executions_next_bound": s.PartialExecs,
		"exhaustive":                    !s.Capped && s.CompletedBound == s.TargetBound,
		"divergences":                   s.Diverged,
		"executions_per_scenario":       s.PerScen,
	}
}

type FoundAt struct {
	Scenario string
	simrt.Found
}

func newExplorer(sc Scenario, t sTask) *simrt.Explorer {
	b := sc.Bounds
	if b.Total < 0 || t.Level < b.Total {
		b.Total = t.Level
	}
	e := &simrt.Explorer{Cfg: sc.Cfg, Body: sc.Body, Bounds: b, Classify: sc.Classify, MaxExecs: t.MaxExecs, NoPrune: os.Getenv("VERIF_NOPRUNE") != ""}
	if ml := os.Getenv("VERIF_MAXLEVEL"); ml != "" {
		var n int
		fmt.Sscan(ml, &n)
		if e.Bounds.Total > n {
			e.Bounds.Total = n
		}
	}
	if t.Deadline != 0 {
		e.Deadline = time.Unix(0, t.Deadline)
	}
	return e
}

func toResult(idx int, e *simrt.Explorer) sResult {
	return sResult{Idx: idx, Execs: e.Execs, Points: e.Points, MaxPoints: e.MaxPoints, MaxThr: e.MaxThreads, Capped: e.Capped,
		Diverged: e.Diverged, FirstDiv: e.FirstDiv, Outcomes: e.Outcomes, Found: e.SortedFound()}
}

// SWorker serves exploration tasks for the given scenario list (call when r.Worker).
func SWorker(scens []Scenario) {
	ServeWorker(func(raw json.RawMessage) any {
		var t sTask
		if err := json.Unmarshal(raw, &t); err != nil {
			EngineError("task: %v", err)
		}
		sc := scens[t.Idx]
		e := newExplorer(sc, t)
		if t.Whole {
			e.Explore(nil)
		} else if t.Prefix == nil {
			tasks := e.Tasks()
			r := toResult(t.Idx, e)
			r.Tasks = tasks
			return r
		} else {
			e.Explore(t.Prefix)
		}
		return toResult(t.Idx, e)
	})
}

// ExploreAll explores every scenario exhaustively, iterating the total deviation bound 0,1,2,...
// up to each scenario's own bounds, in parallel worker processes. Counts are those of the highest
// level that was completed (plus the partial next level if the deadline hit); violations of all
// levels are kept. split: scenarios are split into their level-1 subtrees (few, large scenarios).
func ExploreAll(r *Run, scens []Scenario, split bool, maxExecsPerTask int) *SSummary {
	pool := NewPool(r.NProc, os.Args[1:]...)
	defer pool.Close()
	maxCap := 0
	for _, sc := range scens {
		if c := sc.Bounds.Cap(); c > maxCap {
			maxCap = c
		}
	}
	final := &SSummary{Scenarios: len(scens), Outcomes: map[string]int{}, Found: map[string]*FoundAt{}, PerScen: map[string]int{}, CompletedBound: -1, TargetBound: maxCap}
	done := make([]*SSummary, len(scens)) // per scenario: summary at its own cap (kept across levels)
	for level := 0; level <= maxCap; level++ {
		if r.TimeUp() {
			final.Capped = true
			break
		}
		lv := exploreLevel(r, pool, scens, level, split, maxExecsPerTask, done)
		// violations of every level count
		for k, f := range lv.Found {
			if _, ok := final.Found[k]; !ok {
				final.Found[k] = f
			}
		}
		final.LevelExecs = append(final.LevelExecs, lv.Execs)
		if lv.Capped {
			final.Capped = true
			final.PartialExecs = lv.Execs
			if final.CompletedBound < 0 {
				final.PerScen = lv.PerScen
			}
			break
		}
		final.CompletedBound = level
		final.Execs, final.Points, final.MaxPoints, final.MaxThreads = lv.Execs, lv.Points, lv.MaxPoints, lv.MaxThreads
		final.Outcomes, final.PerScen = lv.Outcomes, lv.PerScen
		final.Diverged, final.FirstDiv = lv.Diverged, lv.FirstDiv
	}
	return final
}

func exploreLevel(r *Run, pool *Pool, scens []Scenario, level int, split bool, maxExecsPerTask int, done []*SSummary) *SSummary {
	sum := &SSummary{Scenarios: len(scens), Outcomes: map[string]int{}, Found: map[string]*FoundAt{}, PerScen: map[string]int{}}
	merge := func(raw json.RawMessage) sResult {
		var res sResult
		if err := json.Unmarshal(raw, &res); err != nil {
			EngineError("result: %v: %s", err, string(raw))
		}
		sum.Execs += res.Execs
		sum.Points += res.Points
		if res.MaxPoints > sum.MaxPoints {
			sum.MaxPoints = res.MaxPoints
		}
		if res.MaxThr > sum.MaxThreads {
			sum.MaxThreads = res.MaxThr
		}
		sum.Capped = sum.Capped || res.Capped
		sum.Diverged += res.Diverged
		if sum.FirstDiv == "" && res.FirstDiv != "" {
			sum.FirstDiv = scens[res.Idx].Name + ": " + res.FirstDiv
		}
		sum.PerScen[scens[res.Idx].Name] += res.Execs
		for k, v := range res.Outcomes {
			sum.Outcomes[k] += v
		}
		for _, f := range res.Found {
			if old, ok := sum.Found[f.Key]; ok {
				old.Count += f.Count
			} else {
				sum.Found[f.Key] = &FoundAt{Scenario: scens[res.Idx].Name, Found: *f}
			}
		}
		return res
	}
	dl := r.Deadline.UnixNano()
	var tasks []any
	var roots []any
	for i := range scens {
		if level > scens[i].Bounds.Cap() {
			// already completely explored at its own cap: carry the counts over
			if d := done[i]; d != nil {
				sum.Execs += d.Execs
				sum.Points += d.Points
				sum.PerScen[scens[i].Name] += d.Execs
				for k, v := range d.Outcomes {
					sum.Outcomes[k] += v
				}
			}
			continue
		}
		if !split {
			tasks = append(tasks, sTask{Idx: i, Level: level, Whole: true, Deadline: dl, MaxExecs: maxExecsPerTask})
		} else {
			roots = append(roots, sTask{Idx: i, Level: level, Deadline: dl})
		}
	}
	per := map[int]*SSummary{}
	acc := func(res sResult) {
		p := per[res.Idx]
		if p == nil {
			p = &SSummary{Outcomes: map[string]int{}}
			per[res.Idx] = p
		}
		p.Execs += res.Execs
		p.Points += res.Points
		for k, v := range res.Outcomes {
			p.Outcomes[k] += v
		}
	}
	if split {
		for _, raw := range pool.Map(roots, nil) {
			res := merge(raw)
			acc(res)
			for _, p := range res.Tasks {
				tasks = append(tasks, sTask{Idx: res.Idx, Level: level, Prefix: p, Deadline: dl, MaxExecs: maxExecsPerTask})
			}
		}
	}
	for _, raw := range pool.Map(tasks, nil) {
		acc(merge(raw))
	}
	if !sum.Capped {
		for i, p := range per {
			if level == scens[i].Bounds.Cap() {
				done[i] = p
			}
		}
	}
	return sum
}

// Violations converts the found failures into reportable violations with replay artefacts.
func (s *SSummary) Violations() []Violation {
	var keys []string
	for k := range s.Found {
		keys = append(keys, k)
	}
	sort.Strings(keys)
	var out []Violation
	for _, k := range keys {
		f := s.Found[k]
		out = append(out, Violation{Key: k, Msg: f.Msg, Count: f.Count,
			Replay: map[string]any{"scenario": f.Scenario, "choices": f.Choices}})
	}
	return out
}

// ReplayScenario re-executes one recorded schedule twice with descriptions and reports whether
// both runs agree (determinism check) and reproduce a failure with the given key.
func ReplayScenario(sc Scenario, choices []int, key string) (ok bool, detail string) {
	run := func() (*simrt.Exec, []simrt.Failure) {
		cfg := sc.Cfg
		cfg.Describe = true
		x := simrt.Run(cfg, choices, sc.Body)
		fails := x.Failures
		if x.Panic != nil {
			fails = append(fails, simrt.Failure{Key: "panic|" + simrt.PanicKey(x.Panic), Msg: x.Panic.Value + "\n" + x.Panic.Stack})
		}
		if sc.Classify != nil {
			fails = append(fails, sc.Classify(x)...)
		}
		return x, fails
	}
	x1, f1 := run()
	x2, f2 := run()
	if x1.Diverged != "" || x2.Diverged != "" {
		return false, "replay diverged: " + x1.Diverged + x2.Diverged
	}
	keys := func(fs []simrt.Failure) string {
		s := ""
		for _, f := range fs {
			s += f.Key + ";"
		}
		return s
	}
	if len(x1.Points) != len(x2.Points) || keys(f1) != keys(f2) || x1.Outcome != x2.Outcome {
		return false, "replay is not deterministic"
	}
	for _, f := range f1 {
		if key == "" || f.Key == key {
			d := f.Msg + "\n--- schedule ---\n"
			for _, l := range x1.TraceLog {
				d += l + "\n"
			}
			return true, d
		}
	}
	return false, "failure not reproduced"
}

// ConfirmViolations replays every found violation twice (determinism) and attaches the described schedule.
func ConfirmViolations(sum *SSummary, scens []Scenario) []Violation {
	byName := map[string]Scenario{}
	for _, s := range scens {
		byName[s.Name] = s
	}
	viol := sum.Violations()
	for i, v := range viol {
		f := sum.Found[v.Key]
		ok, detail := ReplayScenario(byName[f.Scenario], f.Choices, v.Key)
		if !ok {
			b, _ := json.Marshal(map[string]any{"replay": map[string]any{"scenario": f.Scenario, "choices": f.Choices}, "key": v.Key, "msg": v.Msg})
			_ = os.WriteFile("/var/tmp/vcheck-unconfirmed.json", b, 0o644)
			EngineError("violation %s in %s does not replay deterministically: %s (artefact: /var/tmp/vcheck-unconfirmed.json)", v.Key, f.Scenario, detail)
		}
		viol[i].Msg = v.Msg + "\n[scenario " + f.Scenario + "]\n" + detail
	}
	return viol
}

// MaybeReplay handles -replay <file>: re-executes the recorded schedule without the explorer,
// prints the described run and exits 1 if the violation reproduces, 0 otherwise.
func MaybeReplay(r *Run, scens []Scenario) {
	if r.ReplayIn == "" {
		return
	}
	b, err := os.ReadFile(r.ReplayIn)
	if err != nil {
		EngineError("replay: %v", err)
	}
	var art struct {
		Key    string `json:"key"`
		Replay struct {
			Scenario string `json:"scenario"`
			Choices  []int  `json:"choices"`
		} `json:"replay"`
	}
	if err := json.Unmarshal(b, &art); err != nil {
		EngineError("replay: %v", err)
	}
	for _, sc := range scens {
		if sc.Name == art.Replay.Scenario {
			ok, detail := ReplayScenario(sc, art.Replay.Choices, art.Key)
			fmt.Println(detail)
			if ok {
				fmt.Printf("VIOLATION property=%s replay=%s\n", r.ID, r.ReplayIn)
				os.Exit(1)
			}
			fmt.Println("not reproduced")
			os.Exit(0)
		}
	}
	EngineError("replay: scenario %q not found", art.Replay.Scenario)
}
