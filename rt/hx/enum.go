package hx

import (
	"encoding/json"
	"os"
)

// EnumTask is one deterministic run of a scenario enumeration (default schedule, no exploration).
type EnumTask struct {
	Enum bool     `json:"enum"`
	ID   int      `json:"id"`
	Args []string `json:"args"`
}

type EnumResult struct {
	ID    int      `json:"id"`
	Obs   string   `json:"obs"`
	Fails []string `json:"fails,omitempty"` // "key\x00msg"
}

// EnumWorker serves enumeration tasks.
func EnumWorker(run func(args []string) (obs string, fails [][2]string)) {
	ServeWorker(func(raw json.RawMessage) any {
		var t EnumTask
		if err := json.Unmarshal(raw, &t); err != nil {
			EngineError("task: %v", err)
		}
		obs, fails := run(t.Args)
		res := EnumResult{ID: t.ID, Obs: obs}
		for _, f := range fails {
			res.Fails = append(res.Fails, f[0]+"\x00"+f[1])
		}
		return res
	})
}

// EnumAll runs every task in the worker pool and returns the results by task id.
func EnumAll(r *Run, tasks [][]string) []EnumResult {
	pool := NewPool(r.NProc, os.Args[1:]...)
	defer pool.Close()
	var ts []any
	for i, a := range tasks {
		ts = append(ts, EnumTask{Enum: true, ID: i, Args: a})
	}
	out := make([]EnumResult, len(tasks))
	for i, raw := range pool.Map(ts, nil) {
		if err := json.Unmarshal(raw, &out[i]); err != nil {
			EngineError("result: %v", err)
		}
	}
	return out
}
