package hx

import (
	"fmt"
	"reflect"
	"sort"
	"strings"
	"unsafe"
)

// Snap renders a canonical, address-free description of everything reachable from v through
// struct fields (exported or not), pointers, interfaces, maps and slices, limited to types
// declared in the module under test (others are summarised). It is generic on purpose:
// a field that a change to the code adds is picked up automatically, so added state cannot be
// abstracted away silently. Fields named in skip ("Type.field") are left out (immutable
// configuration or state the property cannot observe).
type Snapper struct {
	Skip     map[string]bool
	MaxDepth int
	ids      map[uintptr]int
	sb       strings.Builder
}

func NewSnapper(skip ...string) *Snapper {
	s := &Snapper{Skip: map[string]bool{}, MaxDepth: 8}
	for _, k := range skip {
		s.Skip[k] = true
	}
	return s
}

func (s *Snapper) Snap(vs ...any) string {
	s.ids = map[uintptr]int{}
	s.sb.Reset()
	for i, v := range vs {
		if i > 0 {
			s.sb.WriteString(" || ")
		}
		s.walk(reflect.ValueOf(v), 0)
	}
	return s.sb.String()
}

func inModule(t reflect.Type) bool {
	p := t.PkgPath()
	return strings.HasPrefix(p, "github.com/enbility/ship-go")
}

func (s *Snapper) walk(v reflect.Value, depth int) {
	if !v.IsValid() {
		s.sb.WriteString("nil")
		return
	}
	if depth > s.MaxDepth {
		s.sb.WriteString("…")
		return
	}
	switch v.Kind() {
	case reflect.Bool:
		fmt.Fprintf(&s.sb, "%v", v.Bool())
	case reflect.Int, reflect.Int8, reflect.Int16, reflect.Int32, reflect.Int64:
		fmt.Fprintf(&s.sb, "%d", v.Int())
	case reflect.Uint, reflect.Uint8, reflect.Uint16, reflect.Uint32, reflect.Uint64, reflect.Uintptr:
		fmt.Fprintf(&s.sb, "%d", v.Uint())
	case reflect.Float32, reflect.Float64:
		fmt.Fprintf(&s.sb, "%g", v.Float())
	case reflect.String:
		fmt.Fprintf(&s.sb, "%q", v.String())
	case reflect.Chan:
		if v.IsNil() {
			s.sb.WriteString("chan:nil")
		} else {
			s.sb.WriteString("chan")
		}
	case reflect.Func:
		if v.IsNil() {
			s.sb.WriteString("func:nil")
		} else {
			s.sb.WriteString("func")
		}
	case reflect.Interface:
		if v.IsNil() {
			s.sb.WriteString("nil")
			return
		}
		e := v.Elem()
		if err, ok := asError(e); ok {
			fmt.Fprintf(&s.sb, "err(%q)", err)
			return
		}
		s.walk(e, depth)
	case reflect.Ptr:
		if v.IsNil() {
			s.sb.WriteString("nil")
			return
		}
		et := v.Type().Elem()
		if et.Kind() == reflect.Struct && !inModule(et) {
			fmt.Fprintf(&s.sb, "&%s", et.String())
			return
		}
		p := v.Pointer()
		if id, ok := s.ids[p]; ok {
			fmt.Fprintf(&s.sb, "^%d", id)
			return
		}
		s.ids[p] = len(s.ids) + 1
		fmt.Fprintf(&s.sb, "&%d:", s.ids[p])
		s.walk(v.Elem(), depth+1)
	case reflect.Struct:
		t := v.Type()
		if !inModule(t) {
			s.sb.WriteString(t.String())
			return
		}
		if strings.Contains(t.PkgPath(), "/zzverif/ssync") {
			// locks: only whether held
			s.sb.WriteString(lockState(v))
			return
		}
		s.sb.WriteString(t.Name() + "{")
		for i := 0; i < t.NumField(); i++ {
			f := t.Field(i)
			if s.Skip[t.Name()+"."+f.Name] {
				continue
			}
			fv := v.Field(i)
			if !fv.CanInterface() {
				if fv.CanAddr() {
					fv = reflect.NewAt(fv.Type(), unsafe.Pointer(fv.UnsafeAddr())).Elem()
				} else {
					// copy to an addressable value
					cp := reflect.New(t).Elem()
					cp.Set(v)
					fv = cp.Field(i)
					fv = reflect.NewAt(fv.Type(), unsafe.Pointer(fv.UnsafeAddr())).Elem()
				}
			}
			s.sb.WriteString(f.Name + ":")
			s.walk(fv, depth+1)
			s.sb.WriteString(",")
		}
		s.sb.WriteString("}")
	case reflect.Map:
		if v.IsNil() {
			s.sb.WriteString("map:nil")
			return
		}
		keys := v.MapKeys()
		sort.Slice(keys, func(i, j int) bool { return fmt.Sprint(keys[i]) < fmt.Sprint(keys[j]) })
		s.sb.WriteString("map[")
		for _, k := range keys {
			fmt.Fprintf(&s.sb, "%v=", k)
			s.walk(v.MapIndex(k), depth+1)
			s.sb.WriteString(",")
		}
		s.sb.WriteString("]")
	case reflect.Slice, reflect.Array:
		if v.Kind() == reflect.Slice && v.IsNil() {
			s.sb.WriteString("[]nil")
			return
		}
		if v.Type().Elem().Kind() == reflect.Uint8 {
			n := v.Len()
			b := make([]byte, n)
			for i := 0; i < n; i++ {
				b[i] = byte(v.Index(i).Uint())
			}
			fmt.Fprintf(&s.sb, "%q", string(b))
			return
		}
		s.sb.WriteString("[")
		for i := 0; i < v.Len(); i++ {
			s.walk(v.Index(i), depth+1)
			s.sb.WriteString(",")
		}
		s.sb.WriteString("]")
	default:
		s.sb.WriteString(v.Kind().String())
	}
}

func asError(v reflect.Value) (string, bool) {
	if !v.IsValid() {
		return "", false
	}
	if v.CanInterface() {
		if e, ok := v.Interface().(error); ok && e != nil {
			return e.Error(), true
		}
		return "", false
	}
	// unexported path: go through a pointer copy
	if v.Kind() == reflect.Ptr && !v.IsNil() {
		nv := reflect.NewAt(v.Type().Elem(), unsafe.Pointer(v.Pointer()))
		if e, ok := nv.Interface().(error); ok {
			return e.Error(), true
		}
	}
	return "", false
}

func lockState(v reflect.Value) string {
	// ssync.Mutex{m simrt.Mutex{locked bool,...}} etc.: print the boolean / counter fields
	var sb strings.Builder
	var rec func(v reflect.Value)
	rec = func(v reflect.Value) {
		switch v.Kind() {
		case reflect.Struct:
			for i := 0; i < v.NumField(); i++ {
				n := v.Type().Field(i).Name
				if n == "vc" || n == "rvc" || n == "id" || n == "waiting" {
					continue
				}
				rec(v.Field(i))
			}
		case reflect.Bool:
			if v.Bool() {
				sb.WriteString("1")
			} else {
				sb.WriteString("0")
			}
		case reflect.Int:
			fmt.Fprintf(&sb, "%d", v.Int())
		}
	}
	rec(v)
	return "L" + sb.String()
}

// Field reads a (possibly unexported) field of the struct pointed to by ptr; ok=false if absent.
func Field(ptr any, name string) (reflect.Value, bool) {
	v := reflect.ValueOf(ptr)
	if v.Kind() != reflect.Ptr || v.IsNil() {
		return reflect.Value{}, false
	}
	e := v.Elem()
	if e.Kind() != reflect.Struct {
		return reflect.Value{}, false
	}
	f := e.FieldByName(name)
	if !f.IsValid() {
		return reflect.Value{}, false
	}
	return reflect.NewAt(f.Type(), unsafe.Pointer(f.UnsafeAddr())).Elem(), true
}
