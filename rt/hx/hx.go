// Package hx holds what all check harnesses share: command line, evidence, known findings,
// replay artefacts and a subprocess worker pool.
package hx

import (
	"bufio"
	"crypto/sha1"
	"encoding/json"
	"flag"
	"fmt"
	"os"
	"os/exec"
	"path/filepath"
	"runtime"
	"runtime/debug"
	"sort"
	"strings"
	"sync"
	"time"
)

type Run struct {
	ID       string
	Tier     string
	Seed     int64
	Evidence string
	Known    string
	Replays  string
	ReplayIn string
	Worker   bool
	Start    time.Time
	Deadline time.Time // internal deadline: stop cleanly, exhaustive:false
	NProc    int
	Verbose  bool
	known    []knownEntry
}

type knownEntry struct {
	Property string `json:"property"`
	Key      string `json:"key"`
	What     string `json:"what"`
}

type knownFile struct {
	Findings []knownEntry `json:"findings"`
	Fixed    []any        `json:"fixed"`
}

// Violation is one property violation with a replayable artefact.
type Violation struct {
	Key    string `json:"key"`
	Msg    string `json:"msg"`
	Replay any    `json:"replay,omitempty"`
	Count  int    `json:"count,omitempty"`
}

func Init(id string) *Run {
	// a runaway recursion in the code under test must end in a quick fatal error of this process (which the
	// drivers turn into a violation), not in a gigabyte of stack per worker
	debug.SetMaxStack(64 << 20)
	r := &Run{ID: id, Start: time.Now()}
	var budget time.Duration
	flag.StringVar(&r.Tier, "tier", "quick", "quick|thorough")
	flag.Int64Var(&r.Seed, "seed", 0, "VERIF_SEED")
	flag.StringVar(&r.Evidence, "evidence", "", "evidence file")
	flag.StringVar(&r.Known, "known", "", "known findings file")
	flag.StringVar(&r.Replays, "replays", "", "replay directory")
	flag.StringVar(&r.ReplayIn, "replay", "", "replay this artefact instead of exploring")
	flag.BoolVar(&r.Worker, "worker", false, "internal: worker subprocess")
	flag.DurationVar(&budget, "budget", 0, "internal deadline (0 = tier default)")
	flag.IntVar(&r.NProc, "j", 0, "worker processes (0 = number of CPUs)")
	flag.BoolVar(&r.Verbose, "v", false, "verbose")
	flag.Parse()
	if r.NProc == 0 {
		r.NProc = runtime.NumCPU()
	}
	if budget == 0 {
		if r.Tier == "thorough" {
			budget = 20 * time.Minute
		} else {
			budget = 100 * time.Second
		}
	}
	r.Deadline = r.Start.Add(budget)
	r.ReloadKnown()
	return r
}

// ReloadKnown (re)reads the known-findings entries for r.ID.
func (r *Run) ReloadKnown() {
	id := r.ID
	r.known = nil
	if r.Known != "" {
		if b, err := os.ReadFile(r.Known); err == nil {
			var kf knownFile
			if err := json.Unmarshal(b, &kf); err != nil {
				EngineError("known findings file: %v", err)
			}
			for _, k := range kf.Findings {
				if k.Property == id {
					r.known = append(r.known, k)
				}
			}
		}
	}
}

func (r *Run) Thorough() bool { return r.Tier == "thorough" }

func EngineError(format string, a ...any) {
	fmt.Fprintf(os.Stderr, "ENGINE-ERROR: "+format+"\n", a...)
	os.Exit(2)
}

func (r *Run) isKnown(key string) *knownEntry {
	for i, k := range r.known {
		if k.Key == key {
			return &r.known[i]
		}
		if strings.HasSuffix(k.Key, "*") && strings.HasPrefix(key, strings.TrimSuffix(k.Key, "*")) {
			return &r.known[i]
		}
	}
	return nil
}

// Result is what a harness reports at the end of a run.
type Result struct {
	Level       string // evidence level
	Coverage    map[string]any
	Assumptions []string
	Violations  []Violation
}

// Finish writes the evidence file, prints KNOWN-FINDING / VIOLATION lines and exits.
func (r *Run) Finish(res Result) {
	sort.Slice(res.Violations, func(i, j int) bool { return res.Violations[i].Key < res.Violations[j].Key })
	newV := 0
	knownSeen := map[string]bool{}
	var lines []string
	for _, v := range res.Violations {
		if k := r.isKnown(v.Key); k != nil {
			if !knownSeen[k.Key] {
				knownSeen[k.Key] = true
				lines = append(lines, fmt.Sprintf("KNOWN-FINDING: property=%s %s [%s]", r.ID, k.What, k.Key))
			}
			continue
		}
		newV++
		path := r.writeReplay(v)
		lines = append(lines, fmt.Sprintf("VIOLATION property=%s replay=%s", r.ID, path))
		first := v.Msg
		if i := strings.Index(first, "\n"); i > 0 && !r.Verbose {
			first = first[:i]
		}
		lines = append(lines, fmt.Sprintf("  key=%s: %s", v.Key, first))
	}
	if res.Coverage == nil {
		res.Coverage = map[string]any{}
	}
	res.Coverage["known_findings_seen"] = len(knownSeen)
	ev := map[string]any{
		"property_id": r.ID,
		"tier":        r.Tier,
		"seed":        r.Seed,
		"level":       res.Level,
		"coverage":    res.Coverage,
		"assumptions": res.Assumptions,
		"wall_s":      time.Since(r.Start).Seconds(),
		"violations":  newV,
	}
	if r.Evidence != "" {
		b, _ := json.MarshalIndent(ev, "", " ")
		_ = os.MkdirAll(filepath.Dir(r.Evidence), 0o755)
		if err := os.WriteFile(r.Evidence, b, 0o644); err != nil {
			EngineError("evidence: %v", err)
		}
	}
	for _, l := range lines {
		fmt.Println(l)
	}
	cov, _ := json.Marshal(compactCoverage(res.Coverage))
	fmt.Printf("%s %s: violations=%d known=%d wall=%.1fs %s\n", r.ID, r.Tier, newV, len(knownSeen), time.Since(r.Start).Seconds(), cov)
	if newV > 0 {
		os.Exit(1)
	}
	os.Exit(0)
}

func compactCoverage(c map[string]any) map[string]any {
	out := map[string]any{}
	for k, v := range c {
		switch v.(type) {
		case int, int64, float64, bool, string:
			if s, ok := v.(string); ok && len(s) > 80 {
				continue
			}
			out[k] = v
		}
	}
	return out
}

func (r *Run) writeReplay(v Violation) string {
	dir := r.Replays
	if dir == "" {
		dir = os.TempDir()
	}
	_ = os.MkdirAll(dir, 0o755)
	h := sha1.Sum([]byte(v.Key))
	path := filepath.Join(dir, fmt.Sprintf("%s-%x.json", r.ID, h[:5]))
	b, _ := json.MarshalIndent(map[string]any{"property": r.ID, "key": v.Key, "msg": v.Msg, "replay": v.Replay, "tier": r.Tier, "harness": os.Getenv("VERIF_HARNESS")}, "", " ")
	_ = os.WriteFile(path, b, 0o644)
	return path
}

// KeptKey: violation keys that every check reports whatever property it serves: engine problems, executions that
// do not terminate and events that make the Go runtime kill the process.
func KeptKey(k string) bool {
	return strings.HasPrefix(k, "engine|") || strings.HasPrefix(k, "livelock|") || strings.HasPrefix(k, "fatal|")
}

// TimeUp reports whether the internal deadline has passed.
func (r *Run) TimeUp() bool { return time.Now().After(r.Deadline) }

// EnsureBudget makes sure that the next part of a check that consists of several parts has at least d (quick)
// or 4*d (thorough) to run, even if the earlier parts used up the budget (a loaded machine must not turn a later
// part into a no-op).
func (r *Run) EnsureBudget(d time.Duration) {
	if r.Thorough() {
		d *= 4
	}
	if time.Until(r.Deadline) < d {
		r.Deadline = time.Now().Add(d)
	}
}

// ---- worker pool: the same binary is started with -worker; tasks and results are JSON lines ----

// ServeWorker runs the worker loop: one JSON task per line on stdin, one JSON result per line on stdout.
func ServeWorker(handle func(task json.RawMessage) any) {
	in := bufio.NewReaderSize(os.Stdin, 1<<20)
	out := bufio.NewWriterSize(os.Stdout, 1<<20)
	for {
		line, err := in.ReadBytes('\n')
		if len(line) > 0 {
			res := handle(json.RawMessage(line))
			b, e := json.Marshal(res)
			if e != nil {
				EngineError("worker marshal: %v", e)
			}
			out.Write(b)
			out.WriteByte('\n')
			out.Flush()
		}
		if err != nil {
			return
		}
	}
}

// Pool is a set of worker subprocesses.
type Pool struct {
	procs []*proc
	// Tolerant: a worker that dies on a task (fatal error of the Go runtime: stack overflow, concurrent map
	// access, out of memory) is replaced and the task's result is DiedResult; otherwise a dead worker is an engine error
	Tolerant bool
	extra    []string
}

// DiedResult is the result of a task whose worker process died while working on it (Pool.Tolerant).
const DiedResult = `{"died":true}`

// Died tells whether a raw result is DiedResult.
func Died(raw json.RawMessage) bool {
	return strings.HasPrefix(strings.TrimSpace(string(raw)), `{"died":true`)
}

type proc struct {
	cmd *exec.Cmd
	in  *bufio.Writer
	out *bufio.Reader
	w   interface{ Close() error }
}

// NewPool starts n workers running this binary with -worker plus extra args.
// NewTolerantPool is NewPool with Tolerant set from the start.
func NewTolerantPool(n int, extra ...string) *Pool {
	p := &Pool{extra: extra, Tolerant: true}
	for i := 0; i < n; i++ {
		p.procs = append(p.procs, p.spawn())
	}
	return p
}

func NewPool(n int, extra ...string) *Pool {
	p := &Pool{extra: extra}
	for i := 0; i < n; i++ {
		p.procs = append(p.procs, p.spawn())
	}
	return p
}

func (p *Pool) spawn() *proc {
	exe, err := os.Executable()
	if err != nil {
		EngineError("%v", err)
	}
	args := append([]string{"-worker"}, p.extra...)
	cmd := exec.Command(exe, args...)
	cmd.Stderr = os.Stderr
	if p.Tolerant {
		cmd.Stderr = nil // the crash dump of a worker that is expected to die is not part of the report
	}
	cmd.Env = append(os.Environ(), "GOMAXPROCS=2", "GOGC=200")
	w, _ := cmd.StdinPipe()
	ro, _ := cmd.StdoutPipe()
	if err := cmd.Start(); err != nil {
		EngineError("start worker: %v", err)
	}
	return &proc{cmd: cmd, in: bufio.NewWriterSize(w, 1<<20), out: bufio.NewReaderSize(ro, 1<<20), w: w}
}

// Map sends every task to some worker and returns the results in task order.
// onResult (optional) is called as results arrive (serialised).
func (p *Pool) Map(tasks []any, onResult func(i int, res json.RawMessage)) []json.RawMessage {
	results := make([]json.RawMessage, len(tasks))
	var mu sync.Mutex
	next := 0
	var wg sync.WaitGroup
	for _, pr := range p.procs {
		wg.Add(1)
		go func(pr *proc) {
			defer wg.Done()
			for {
				mu.Lock()
				i := next
				next++
				mu.Unlock()
				if i >= len(tasks) {
					return
				}
				b, err := json.Marshal(tasks[i])
				if err != nil {
					EngineError("task marshal: %v", err)
				}
				pr.in.Write(b)
				pr.in.WriteByte('\n')
				pr.in.Flush()
				line, err := pr.out.ReadBytes('\n')
				if err != nil {
					_ = pr.cmd.Wait()
					code := pr.cmd.ProcessState.ExitCode()
					if !p.Tolerant {
						EngineError("worker died (exit %d) on task %d: %s", code, i, string(b))
					}
					*pr = *p.spawn()
					line = []byte(DiedResult)
				}
				mu.Lock()
				results[i] = json.RawMessage(line)
				if onResult != nil {
					onResult(i, results[i])
				}
				mu.Unlock()
			}
		}(pr)
	}
	wg.Wait()
	return results
}

func (p *Pool) Close() {
	for _, pr := range p.procs {
		pr.w.Close()
		_ = pr.cmd.Wait()
	}
}

// Sample keeps up to n samples.
type Sample struct {
	N     int
	Items []any
}

func (s *Sample) Add(v any) {
	if len(s.Items) < s.N {
		s.Items = append(s.Items, v)
	}
}

// ReadJSON reads a JSON file into v (engine error on failure).
func ReadJSON(path string, v any) {
	b, err := os.ReadFile(path)
	if err != nil {
		EngineError("%v", err)
	}
	if err := json.Unmarshal(b, v); err != nil {
		EngineError("%v", err)
	}
}

// Exit terminates the process with the given code.
func Exit(code int) { os.Exit(code) }

// ReadFile returns the content of a file (empty on error).
func ReadFile(path string) string {
	b, _ := os.ReadFile(path)
	return string(b)
}

// A harness that runs both a graph search and a schedule exploration tells its workers which
// protocol to speak through the VERIF_WORKER_MODE environment variable.
func WorkerMode() string     { return os.Getenv("VERIF_WORKER_MODE") }
func SetWorkerMode(m string) { os.Setenv("VERIF_WORKER_MODE", m) }

// WriteJSON writes v to path (engine error on failure).
func WriteJSON(path string, v any) {
	b, err := json.Marshal(v)
	if err != nil {
		EngineError("%v", err)
	}
	if err := os.WriteFile(path, b, 0o644); err != nil {
		EngineError("%v", err)
	}
}
