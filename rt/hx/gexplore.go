package hx

import (
	"encoding/json"
	"fmt"
	"os"
	"sort"
	"strings"

	"github.com/enbility/ship-go/zzverif/simrt"
)

// Explicit-state search whose transition function is the real code: a state is the shortest
// event history that reaches it, replayed on fresh objects under the default schedule; states
// are deduplicated by a canonical key; monitors run on every transition.

// GView is what a harness reports after replaying a history.
type GView struct {
	Key     string   // canonical state key
	Enabled []string // events enabled in this state
	Writes  int      // transport writes performed by the last event (fault variants e!1..e!w)
	Obs     string   // what the last event produced (for samples / counterexamples)
	Final   bool     // do not expand (harness-defined horizon)
	Class   string   // coarse class of the state (representatives per class are used for probing)
	Tags    []string // notable things the last transition did (non-vacuity counters)
}

// GModel is one configuration of a graph search.
type GModel struct {
	Name string
	// Build replays the history on a fresh world (called inside simrt.Run as sim thread 0) and
	// returns the view of the reached state; it reports violations through simrt.Fail.
	Build func(history []string) GView
	// FaultVariants: for every transition with w>0 writes also explore the w single-fault variants
	FaultVariants bool
	MaxDepth      int // 0 = unbounded (to fixpoint)
	MaxStates     int // safety net
	KeepGraph     bool
}

type gTask struct {
	Model   int      `json:"m"`
	History []string `json:"h"`
	Depth   int      `json:"d"`
	List    bool     `json:"list,omitempty"` // only list the events enabled in the state (no successor is built)
	Only    string   `json:"only,omitempty"` // build the successor(s) of this event only
}

type gSucc struct {
	Event string          `json:"e"`
	Key   string          `json:"k"`
	Fails []simrt.Failure `json:"f,omitempty"`
	Obs   string          `json:"o,omitempty"`
	Final bool            `json:"fin,omitempty"`
	Steps int             `json:"s"`
	Class string          `json:"c,omitempty"`
	Tags  []string        `json:"t,omitempty"`
}

type gResult struct {
	Model int     `json:"m"`
	Succ  []gSucc `json:"s"`
	Runs  int     `json:"r"`
}

// GSummary is the merged result of all graph searches.
type GSummary struct {
	States      int
	Transitions int
	Replays     int
	MaxDepth    int
	Capped      bool
	PerModel    map[string][2]int
	Found       map[string]*GFound
	Samples     []string
	Graphs      map[string]*Graph
	DepthBound  int
	Reps        map[string][]string // "model|class" -> shortest history reaching a state of that class
	RepModel    map[string]int
	Probes      int
	TagCount    map[string]int
	ClassOf     map[string]string // state key -> class (when the harness reports classes)
}

type GFound struct {
	Key     string
	Msg     string
	Model   string
	History []string
	Count   int
}

// Graph is the explored state graph of one model (when KeepGraph).
type Graph struct {
	Keys    []string       // state index -> key
	Index   map[string]int // key -> index
	Edges   [][]GEdge      // per state
	Hist    [][]string     // shortest history per state
	histIdx map[string]int
}

type GEdge struct {
	Event string
	To    int
}

func runBuild(m GModel, hist []string) (GView, []simrt.Failure, int) {
	var v GView
	x := simrt.Run(simrt.Config{}, nil, func() { v = m.Build(hist) })
	fails := x.Failures
	if x.Panic != nil {
		fails = append(fails, simrt.Failure{Key: "panic|" + simrt.PanicKey(x.Panic), Msg: "panic in " + x.Panic.Thread + ": " + x.Panic.Value + "\n" + x.Panic.Stack})
	}
	if x.Truncated {
		fails = append(fails, simrt.Failure{Key: "livelock|step-limit", Msg: "handling this event does not come to an end: the step limit of the execution was exceeded (unbounded loop or recursion through scheduling points)"})
	}
	return v, fails, x.Steps
}

// GWorker serves graph-search tasks (call when r.Worker).
func GWorker(models []GModel) {
	ServeWorker(func(raw json.RawMessage) any {
		var pt gProbeTask
		if err := json.Unmarshal(raw, &pt); err == nil && pt.Probe {
			m := models[pt.Model]
			var pr gProbeResult
			for i := pt.From; i < pt.To; i++ {
				ev := fmt.Sprintf("P:%d", i)
				_, fails, _ := runBuild(m, append(append([]string(nil), pt.History...), ev))
				pr.Runs++
				for _, f := range fails {
					pr.Fails = append(pr.Fails, gProbeFail{Event: ev, F: f})
				}
			}
			return pr
		}
		var t gTask
		if err := json.Unmarshal(raw, &t); err != nil {
			EngineError("task: %v", err)
		}
		m := models[t.Model]
		res := gResult{Model: t.Model}
		v, _, _ := runBuild(m, t.History)
		res.Runs++
		if v.Final {
			return res
		}
		hasFault := false
		for _, e := range t.History {
			if strings.Contains(e, "!") {
				hasFault = true
			}
		}
		for _, e := range v.Enabled {
			if t.List {
				res.Succ = append(res.Succ, gSucc{Event: e})
				continue
			}
			if t.Only != "" && e != t.Only {
				continue
			}
			h2 := append(append([]string(nil), t.History...), e)
			v2, f2, steps := runBuild(m, h2)
			res.Runs++
			res.Succ = append(res.Succ, gSucc{Event: e, Key: v2.Key, Fails: f2, Obs: v2.Obs, Final: v2.Final, Steps: steps, Class: v2.Class, Tags: v2.Tags})
			if m.FaultVariants && !hasFault && v2.Writes > 0 {
				for i := 1; i <= v2.Writes; i++ {
					ev := fmt.Sprintf("%s!%d", e, i)
					h3 := append(append([]string(nil), t.History...), ev)
					v3, f3, st3 := runBuild(m, h3)
					res.Runs++
					res.Succ = append(res.Succ, gSucc{Event: ev, Key: v3.Key, Fails: f3, Obs: v3.Obs, Final: v3.Final, Steps: st3, Class: v3.Class, Tags: v3.Tags})
				}
			}
		}
		return res
	})
}

// FatalKey is the violation key for an input / event that makes the Go runtime kill the process (stack
// overflow, concurrent map access, out of memory): nothing a recover() could catch.
const FatalKey = "fatal|process-killed"

// bisectDied expands the state of a task whose worker died event by event, each in a worker of its own, and
// returns the merged result; the events that kill their worker are recorded as violations.
func bisectDied(pool *Pool, sum *GSummary, models []GModel, t gTask) json.RawMessage {
	merged := gResult{Model: t.Model}
	lt := t
	lt.List = true
	lraw := pool.Map([]any{lt}, nil)[0]
	if Died(lraw) {
		sum.addFound(simrt.Failure{Key: FatalKey, Msg: "re-building the state reached by this history killed the worker process (fatal error of the Go runtime)"}, models[t.Model].Name, t.History)
		b, _ := json.Marshal(merged)
		return b
	}
	var lres gResult
	if err := json.Unmarshal(lraw, &lres); err != nil {
		EngineError("result: %v", err)
	}
	merged.Runs += lres.Runs
	var single []any
	for _, s := range lres.Succ {
		st := t
		st.Only = s.Event
		single = append(single, st)
	}
	for i, raw := range pool.Map(single, nil) {
		ev := single[i].(gTask).Only
		if Died(raw) {
			sum.addFound(simrt.Failure{Key: FatalKey, Msg: "event " + ev + " makes the Go runtime kill the process (fatal error: stack overflow, concurrent map access or out of memory - not recoverable)"},
				models[t.Model].Name, append(append([]string(nil), t.History...), ev))
			continue
		}
		var res gResult
		if err := json.Unmarshal(raw, &res); err != nil {
			EngineError("result: %v", err)
		}
		merged.Runs += res.Runs
		merged.Succ = append(merged.Succ, res.Succ...)
	}
	b, _ := json.Marshal(merged)
	return b
}

// GExploreAll runs the breadth-first search of every model to fixpoint (or its depth bound).
func GExploreAll(r *Run, models []GModel) *GSummary {
	sum := &GSummary{PerModel: map[string][2]int{}, Found: map[string]*GFound{}, Graphs: map[string]*Graph{}, Reps: map[string][]string{}, RepModel: map[string]int{}, TagCount: map[string]int{}, ClassOf: map[string]string{}}
	pool := NewTolerantPool(r.NProc, os.Args[1:]...)
	defer pool.Close()
	type st struct {
		hist []string
	}
	seen := make([]map[string]int, len(models))
	frontier := make([][][]string, len(models))
	graphs := make([]*Graph, len(models))
	for i, m := range models {
		seen[i] = map[string]int{}
		// initial state
		v, fails, _ := runBuild(m, nil)
		sum.Replays++
		for _, f := range fails {
			sum.addFound(f, m.Name, nil)
		}
		seen[i][v.Key] = 0
		if v.Class != "" {
			sum.ClassOf[v.Key] = v.Class
		}
		frontier[i] = [][]string{nil}
		g := &Graph{Index: map[string]int{}}
		g.Keys = append(g.Keys, v.Key)
		g.Index[v.Key] = 0
		g.Edges = append(g.Edges, nil)
		g.Hist = append(g.Hist, nil)
		graphs[i] = g
	}
	depth := 0
	for {
		var tasks []any
		var owner []int
		var from []int
		for i, m := range models {
			if m.MaxDepth > 0 && depth >= m.MaxDepth {
				if len(frontier[i]) > 0 {
					sum.DepthBound = m.MaxDepth
				}
				continue
			}
			for _, h := range frontier[i] {
				tasks = append(tasks, gTask{Model: i, History: h, Depth: depth})
				owner = append(owner, i)
			}
		}
		_ = from
		if len(tasks) == 0 {
			break
		}
		if r.TimeUp() {
			sum.Capped = true
			break
		}
		next := make([][][]string, len(models))
		results := pool.Map(tasks, nil)
		for ti, raw := range results {
			if Died(raw) {
				// the worker process was killed by the Go runtime while expanding this state: find the event(s)
				results[ti] = bisectDied(pool, sum, models, tasks[ti].(gTask))
			}
		}
		for ti, raw := range results {
			var res gResult
			if err := json.Unmarshal(raw, &res); err != nil {
				EngineError("result: %v", err)
			}
			mi := owner[ti]
			m := models[mi]
			hist := tasks[ti].(gTask).History
			sum.Replays += res.Runs
			g := graphs[mi]
			fromIdx := 0
			if m.KeepGraph {
				// the task's own state index: look it up by replaying is expensive; histories are unique per state
				fromIdx = g.histIndex(hist)
			}
			for _, s := range res.Succ {
				sum.Transitions++
				for _, tg := range s.Tags {
					sum.TagCount[tg]++
				}
				h2 := append(append([]string(nil), hist...), s.Event)
				for _, f := range s.Fails {
					sum.addFound(f, m.Name, h2)
				}
				if len(sum.Samples) < 12 && (sum.Transitions%257 == 1) {
					sum.Samples = append(sum.Samples, m.Name+": "+strings.Join(h2, " ")+" => "+s.Obs)
				}
				if len(s.Fails) > 0 && hasPanic(s.Fails) {
					continue
				}
				if s.Class != "" {
					sum.ClassOf[s.Key] = s.Class
					rk := m.Name + "|" + s.Class
					if _, ok := sum.Reps[rk]; !ok {
						sum.Reps[rk] = h2
						sum.RepModel[rk] = mi
					}
				}
				idx, ok := seen[mi][s.Key]
				if !ok {
					idx = len(seen[mi])
					seen[mi][s.Key] = idx
					if m.KeepGraph {
						g.Keys = append(g.Keys, s.Key)
						g.Index[s.Key] = idx
						g.Edges = append(g.Edges, nil)
						g.Hist = append(g.Hist, h2)
					}
					if !s.Final {
						next[mi] = append(next[mi], h2)
					}
					if m.MaxStates > 0 && len(seen[mi]) >= m.MaxStates {
						sum.Capped = true
					}
				}
				if m.KeepGraph {
					g.Edges[fromIdx] = append(g.Edges[fromIdx], GEdge{Event: s.Event, To: idx})
				}
			}
		}
		for i := range models {
			frontier[i] = next[i]
			if models[i].MaxStates > 0 && len(seen[i]) >= models[i].MaxStates {
				frontier[i] = nil
			}
		}
		depth++
		if depth > sum.MaxDepth {
			sum.MaxDepth = depth
		}
	}
	if dump := os.Getenv("VERIF_DUMPKEYS"); dump != "" {
		var sb strings.Builder
		for i := range models {
			ks := make([]string, 0, len(seen[i]))
			for k := range seen[i] {
				ks = append(ks, k)
			}
			sort.Strings(ks)
			for _, k := range ks {
				sb.WriteString(models[i].Name + "\t" + k + "\n")
			}
		}
		_ = os.WriteFile(dump, []byte(sb.String()), 0o644)
	}
	for i, m := range models {
		sum.States += len(seen[i])
		sum.PerModel[m.Name] = [2]int{len(seen[i]), 0}
		if m.KeepGraph {
			sum.Graphs[m.Name] = graphs[i]
		}
	}
	return sum
}

func hasPanic(fs []simrt.Failure) bool {
	for _, f := range fs {
		if strings.HasPrefix(f.Key, "panic|") || strings.HasPrefix(f.Key, "engine|") {
			return true
		}
	}
	return false
}

func (g *Graph) histIndex(h []string) int {
	if g.histIdx == nil {
		g.histIdx = map[string]int{}
	}
	for i := len(g.histIdx); i < len(g.Hist); i++ {
		g.histIdx[strings.Join(g.Hist[i], "\x00")] = i
	}
	return g.histIdx[strings.Join(h, "\x00")]
}

func (s *GSummary) addFound(f simrt.Failure, model string, hist []string) {
	if old, ok := s.Found[f.Key]; ok {
		old.Count++
		if len(hist) < len(old.History) {
			old.History, old.Msg, old.Model = hist, f.Msg, model
		}
		return
	}
	s.Found[f.Key] = &GFound{Key: f.Key, Msg: f.Msg, Model: model, History: hist, Count: 1}
}

// Violations converts found failures into reportable violations (history = replay artefact).
func (s *GSummary) Violations() []Violation {
	var keys []string
	for k := range s.Found {
		keys = append(keys, k)
	}
	sort.Strings(keys)
	var out []Violation
	for _, k := range keys {
		f := s.Found[k]
		out = append(out, Violation{Key: k, Msg: fmt.Sprintf("%s\n[model %s] history: %s", f.Msg, f.Model, strings.Join(f.History, " ")), Count: f.Count,
			Replay: map[string]any{"model": f.Model, "history": f.History}})
	}
	return out
}

// Coverage renders the common coverage keys of a graph search.
func (s *GSummary) Coverage() map[string]any {
	var samples []any
	for _, x := range s.Samples {
		samples = append(samples, x)
	}
	if len(samples) == 0 {
		samples = append(samples, "(initial states only)")
	}
	return map[string]any{
		"states":                        s.States,
		"transitions":                   s.Transitions,
		"traces_validated_against_impl": s.Transitions,
		"replays":                       s.Replays,
		"max_depth":                     s.MaxDepth,
		"depth_bound":                   s.DepthBound,
		"per_model":                     s.PerModel,
		"samples":                       samples,
		"exhaustive":                    !s.Capped,
		"transitions_by_effect":         s.TagCount,
	}
}

// GConfirm replays each found history twice and checks that the failure reproduces deterministically.
func GConfirm(sum *GSummary, models []GModel) []Violation {
	byName := map[string]GModel{}
	for _, m := range models {
		byName[m.Name] = m
	}
	viol := sum.Violations()
	for _, v := range viol {
		if v.Key == FatalKey {
			continue // confirmed in worker processes of their own (re-running it here would kill this process)
		}
		f := sum.Found[v.Key]
		m := byName[f.Model]
		ok := 0
		for i := 0; i < 2; i++ {
			_, fails, _ := runBuild(m, f.History)
			for _, fl := range fails {
				if fl.Key == v.Key {
					ok++
					break
				}
			}
		}
		if ok != 2 {
			EngineError("violation %s (model %s, history %v) does not replay deterministically (%d/2)", v.Key, f.Model, f.History, ok)
		}
	}
	return viol
}

// GMaybeReplay handles -replay for graph-search artefacts.
func GMaybeReplay(r *Run, models []GModel) {
	if r.ReplayIn == "" {
		return
	}
	b, err := os.ReadFile(r.ReplayIn)
	if err != nil {
		EngineError("replay: %v", err)
	}
	var art struct {
		Key    string `json:"key"`
		Replay struct {
			Model   string   `json:"model"`
			History []string `json:"history"`
		} `json:"replay"`
	}
	if err := json.Unmarshal(b, &art); err != nil {
		EngineError("replay: %v", err)
	}
	if art.Key == FatalKey {
		// the last event kills the process that executes it: run it in a worker and look whether it survives
		for mi, m := range models {
			if m.Name == art.Replay.Model && len(art.Replay.History) > 0 {
				pool := NewTolerantPool(1, os.Args[1:]...)
				n := len(art.Replay.History)
				last := art.Replay.History[n-1]
				var task any = gTask{Model: mi, History: art.Replay.History[:n-1], Only: last}
				if strings.HasPrefix(last, "P:") {
					var i int
					fmt.Sscanf(last[2:], "%d", &i)
					task = gProbeTask{Probe: true, Model: mi, History: art.Replay.History[:n-1], From: i, To: i + 1}
				}
				raw := pool.Map([]any{task}, nil)[0]
				pool.Close()
				if Died(raw) {
					fmt.Printf("the worker process executing %s after %v was killed by the Go runtime\n", last, art.Replay.History[:n-1])
					fmt.Printf("VIOLATION property=%s replay=%s\n", r.ID, r.ReplayIn)
					os.Exit(1)
				}
				fmt.Println("not reproduced")
				os.Exit(0)
			}
		}
	}
	for _, m := range models {
		if m.Name == art.Replay.Model {
			for i := 1; i <= len(art.Replay.History); i++ {
				v, fails, _ := runBuild(m, art.Replay.History[:i])
				fmt.Printf("%-28s => %s\n", art.Replay.History[i-1], v.Obs)
				for _, f := range fails {
					fmt.Printf("   FAIL %s: %s\n", f.Key, f.Msg)
					if f.Key == art.Key && i == len(art.Replay.History) {
						fmt.Printf("VIOLATION property=%s replay=%s\n", r.ID, r.ReplayIn)
						os.Exit(1)
					}
				}
			}
			fmt.Println("not reproduced")
			os.Exit(0)
		}
	}
	EngineError("replay: model %q not found", art.Replay.Model)
}

type gProbeTask struct {
	Probe   bool     `json:"probe"`
	Model   int      `json:"m"`
	History []string `json:"h"`
	From    int      `json:"a"`
	To      int      `json:"b"`
}

type gProbeResult struct {
	Runs  int          `json:"r"`
	Fails []gProbeFail `json:"f,omitempty"`
}

type gProbeFail struct {
	Event string        `json:"e"`
	F     simrt.Failure `json:"f"`
}

// GProbe delivers the probe events P:<from..to-1> in one representative state per class (after
// the search) without expanding their successors. Violations are added to sum.Found.
func GProbe(r *Run, sum *GSummary, models []GModel, nProbes, chunk int) {
	pool := NewTolerantPool(r.NProc, os.Args[1:]...)
	defer pool.Close()
	var tasks []any
	var keys []string
	for rk := range sum.Reps {
		keys = append(keys, rk)
	}
	sort.Strings(keys)
	for _, rk := range keys {
		for a := 0; a < nProbes; a += chunk {
			b := a + chunk
			if b > nProbes {
				b = nProbes
			}
			tasks = append(tasks, gProbeTask{Probe: true, Model: sum.RepModel[rk], History: sum.Reps[rk], From: a, To: b})
		}
	}
	results := pool.Map(tasks, nil)
	// a chunk whose worker died is repeated probe by probe
	var single []any
	for ti, raw := range results {
		if Died(raw) {
			t := tasks[ti].(gProbeTask)
			for i := t.From; i < t.To; i++ {
				single = append(single, gProbeTask{Probe: true, Model: t.Model, History: t.History, From: i, To: i + 1})
			}
			results[ti] = json.RawMessage(`{"r":0}`)
		}
	}
	if len(single) > 0 {
		for i, raw := range pool.Map(single, nil) {
			t := single[i].(gProbeTask)
			if Died(raw) {
				ev := fmt.Sprintf("P:%d", t.From)
				sum.addFound(simrt.Failure{Key: FatalKey, Msg: "input " + ev + " makes the Go runtime kill the process (fatal error: stack overflow, concurrent map access or out of memory - not recoverable)"},
					models[t.Model].Name, append(append([]string(nil), t.History...), ev))
				continue
			}
			tasks = append(tasks, t)
			results = append(results, raw)
		}
	}
	for ti, raw := range results {
		var res gProbeResult
		if err := json.Unmarshal(raw, &res); err != nil {
			EngineError("probe result: %v", err)
		}
		t := tasks[ti].(gProbeTask)
		sum.Probes += res.Runs
		sum.Replays += res.Runs
		for _, f := range res.Fails {
			sum.addFound(f.F, models[t.Model].Name, append(append([]string(nil), t.History...), f.Event))
		}
	}
}
